#!/bin/bash
# Build everything from files on disk: Coq theories (full .vo build), extraction of each
# cluster, OCaml drivers.  Usage: build.sh [all|coq|drivers|driver <Cluster>]
set -u
V=${VERIF_ROOT:-/verif}
cd $V
mode=${1:-all}
mkdir -p $V/build $V/evidence $V/replays
JOBS=${VERIF_JOBS:-16}
fail() { echo "ERROR build: $*" >&2; exit 2; }

# files an agent is still writing (one path per line, relative to coq/): not part of the build yet
wip() { [ -f $V/coq/WIP ] && grep -v '^#' $V/coq/WIP || true; }

lint() {
  # forbidden constructs anywhere in the development (comments excluded crudely by pattern choice)
  if grep -rnE '\b(Admitted|admit|Axiom|Axioms|Parameter|Parameters|Conjecture|Conjectures)\b|Unset Guard|bypass_check|Admit Obligations|type-in-type|impredicative-set|Unset Universe Checking|Unset Positivity' \
       $V/coq/theories --include='*.v' | grep -v '^\S*: *(\*' ; then
    fail "forbidden construct in Coq sources"
  fi
  # Variable / Hypothesis outside a section would also declare an axiom
  python3 - <<'PY' || exit 2
import re,sys,glob
bad=0
def strip_comments(text):
    # nested (* ... *) comments replaced by blanks, newlines kept
    out=[]; d=0; i=0; n=len(text)
    while i<n:
        if text.startswith('(*',i): d+=1; i+=2; out.append('  '); continue
        if d>0 and text.startswith('*)',i): d-=1; i+=2; out.append('  '); continue
        c=text[i]; out.append(c if (d==0 or c=='\n') else ' '); i+=1
    return ''.join(out)
for f in glob.glob('/verif/coq/theories/**/*.v',recursive=True):
    depth=0
    for i,l in enumerate(strip_comments(open(f).read()).split('\n'),1):
        s=l.strip()
        if re.match(r'Section\s+\w+\s*\.',s): depth+=1
        elif re.match(r'End\s+\w+\s*\.',s) and depth>0: depth-=1
        elif re.match(r'(Variable|Variables|Hypothesis|Hypotheses|Context)\b',s) and depth==0:
            print(f"{f}:{i}: {s}"); bad=1
sys.exit(2 if bad else 0)
PY
}

project() {
  cd $V/coq
  ( flock 9
    { echo "-Q theories Phil"; find theories -name '*.v' ! -path 'theories/Extraction/*' | sort | grep -vxFf <(wip) ; } > _CoqProject.new
    if ! cmp -s _CoqProject.new _CoqProject 2>/dev/null || [ ! -f Makefile ]; then
      mv _CoqProject.new _CoqProject; coq_makefile -f _CoqProject -o Makefile >/dev/null || fail coq_makefile
    else rm _CoqProject.new; fi
  ) 9> $V/build/.project.lock
  cd $V
}

build_coq() {
  lint
  project
  cd $V/coq
  # -k: a file that does not build must not hide the others; what the claimed checks need is verified below
  timeout 3000 make -k -j$JOBS COQC='timeout 900 coqc' > $V/build/coq.log 2>&1 || echo "WARNING: some Coq files did not build (see build/coq.log)" >&2
  cd $V
  for pid in $(python3 -c "import json;print(' '.join(c['property_id'] for c in json.load(open('$V/MANIFEST.json'))['checks']))"); do
    [ -f $V/coq/theories/Properties/$pid.vo ] || { grep -B2 -A12 -m1 "Error" $V/build/coq.log >&2; fail "Properties/$pid.vo was not built"; }
  done
}

build_cone() {
  project
  cd $V/coq
  timeout 3000 make -j$JOBS COQC='timeout 900 coqc' "$@" > $V/build/cone.$$.log 2>&1 || { tail -30 $V/build/cone.$$.log >&2; rm -f $V/build/cone.$$.log; fail "make $*"; }
  rm -f $V/build/cone.$$.log
  cd $V
}

build_driver() {
  local X=$1
  local D=$V/build/$X
  mkdir -p $D
  ( cd $D && timeout 600 coqc -Q $V/coq/theories Phil $V/coq/theories/Extraction/Extract$X.v > extract.log 2>&1 ) || { tail -20 $D/extract.log >&2; fail "extraction $X"; }
  rm -f $V/coq/theories/Extraction/Extract$X.vo $V/coq/theories/Extraction/Extract$X.glob $V/coq/theories/Extraction/.Extract$X.aux $V/coq/theories/Extraction/Extract$X.vos $V/coq/theories/Extraction/Extract$X.vok
  {
    echo "module M = $X"
    echo "let ops = ["
    grep -oE '^(let rec|let|and) run_[a-zA-Z0-9_]+' $D/$X.ml | awk '{print $NF}' | sort -u | while read f; do
      echo "  (\"${f#run_}\", M.$f);"
    done
    echo "]"
  } > $D/ops.ml
  cp $V/ocaml/driver.ml $D/driver.ml
  ( cd $D && ocamlfind ocamlopt -O3 -unboxed-types 2>/dev/null -w -a $X.mli $X.ml ops.ml driver.ml -o drv > ocaml.log 2>&1 \
      || ocamlfind ocamlopt -w -a $X.mli $X.ml ops.ml driver.ml -o drv > ocaml.log 2>&1 ) || { tail -20 $D/ocaml.log >&2; fail "ocaml $X"; }
}

clusters() { for f in $V/coq/theories/Extraction/Extract*.v; do b=$(basename $f .v); echo ${b#Extract}; done; }

case $mode in
  coq) build_coq ;;
  project) project ;;
  lint) lint ;;
  cone) shift; build_cone "$@" ;;
  driver) build_cone theories/Model/Entry$2.vo; build_driver $2 ;;
  drivers) for c in $(clusters); do build_driver $c & done; wait ;;
  all)
    build_coq
    pids=()
    for c in $(clusters); do build_driver $c & pids+=($!); done
    rc=0; for p in "${pids[@]}"; do wait $p || rc=2; done
    # a cluster that does not extract/compile must not block the others: every check rebuilds (and then
    # insists on) the drivers it needs itself
    [ $rc = 0 ] || echo "WARNING: some drivers did not build (each check rebuilds the ones it needs)" >&2
    echo "build ok"
    ;;
esac
