"""Shared machinery of every check: model driver I/O, sexp codec, theorem re-checking,
correspondence runner, shrinking, failing-input search, known findings, evidence, verdict.

A check = (1) re-compile Properties/<id>.v with coqc and collect Print Assumptions,
          (2) run the property's correspondence streams: implementation (freephil imported
              from /repo/src) vs. extracted Coq model on the same generated inputs,
          (3) run the property's own statement (oracle) on the implementation for the same
              inputs (used to find a concrete failing input, never as a proof),
          (4) verdict + evidence file.
"""
import glob
import hashlib
import json
import os
import random
import re
import signal
import subprocess
import sys
import time
import traceback

V = "/verif"
COQ = V + "/coq"
BUILD = V + "/build"

TRUSTED_BASE_COMMON = [
    "Coq 8.16.1 kernel via coqc (no native_compute; vm_compute for witnesses and finite sweeps)",
    "Hand-written Gallina model mirrors the Python control flow; tie = differential execution on every run (this file's correspondence counts)",
    "Extraction: Require Extraction + ExtrOcamlBasic only (no Extract Constant / Extract Inductive of our own); OCaml 4.13.1 ocamlopt",
    "Generic OCaml driver /verif/ocaml/driver.ml (hex s-expression line protocol) and Python harness /verif/harness (generators, canonicaliser, differ)",
    "CPython 3.12 str/list semantics for code points < 256 (isspace/lower tables compared exhaustively on every run)",
]


# ----------------------------------------------------------------------------- sexp codec
def enc(x):
    """Python value -> sexp text.  bytes/str -> atom; int -> decimal atom; bool -> 1/0; list/tuple -> list."""
    if isinstance(x, bool):
        return "x31" if x else "x30"
    if isinstance(x, int):
        return "x" + str(x).encode().hex()
    if isinstance(x, str):
        return "x" + x.encode("latin-1").hex()
    if isinstance(x, bytes):
        return "x" + x.hex()
    if isinstance(x, (list, tuple)):
        return "(" + " ".join(enc(y) for y in x) + ")"
    raise TypeError("cannot encode %r" % (x,))


def dec(s):
    """sexp text -> nested lists of str (latin-1)."""
    pos = 0
    stack = [[]]
    n = len(s)
    while pos < n:
        c = s[pos]
        if c == "(":
            stack.append([])
            pos += 1
        elif c == ")":
            top = stack.pop()
            stack[-1].append(top)
            pos += 1
        elif c == " ":
            pos += 1
        elif c == "x":
            j = pos + 1
            while j < n and s[j] in "0123456789abcdef":
                j += 1
            stack[-1].append(bytes.fromhex(s[pos + 1 : j]).decode("latin-1"))
            pos = j
        elif c == "!":
            return ["!driver", s]
        else:
            raise ValueError("bad sexp reply: %r" % s[:80])
    return stack[0][0]


class Driver:
    """Batch interface to build/<cluster>/drv."""

    def __init__(self, cluster):
        self.cluster = cluster
        self.path = "%s/%s/drv" % (BUILD, cluster)
        if not os.path.exists(self.path):
            raise HarnessError("driver %s not built (run ./build.sh)" % self.path)

    def batch(self, requests, timeout=3600):
        """requests: list of (op, python value). Returns list of decoded replies."""
        if not requests:
            return []
        data = "".join("%s %s\n" % (op, enc(arg)) for op, arg in requests).encode("ascii")
        p = subprocess.run(
            ["bash", "-c", "ulimit -s unlimited 2>/dev/null; exec " + self.path],
            input=data,
            stdout=subprocess.PIPE,
            stderr=subprocess.PIPE,
            timeout=timeout,
        )
        lines = p.stdout.decode("ascii").split("\n")
        if lines and lines[-1] == "":
            lines.pop()
        if p.returncode != 0 or len(lines) != len(requests):
            raise HarnessError(
                "driver %s: rc=%s, %d replies for %d requests; stderr=%s"
                % (self.cluster, p.returncode, len(lines), len(requests), p.stderr[-300:])
            )
        return [dec(l) for l in lines]

    def pbatch(self, requests, jobs=8, timeout=3600):
        """Same as batch but sharded over processes."""
        n = len(requests)
        if n < 2000 or jobs <= 1:
            return self.batch(requests, timeout)
        import concurrent.futures as cf

        size = (n + jobs - 1) // jobs
        chunks = [requests[i : i + size] for i in range(0, n, size)]
        with cf.ThreadPoolExecutor(max_workers=jobs) as ex:
            parts = list(ex.map(lambda ch: self.batch(ch, timeout), chunks))
        out = []
        for p in parts:
            out.extend(p)
        return out


class HarnessError(Exception):
    pass


# ----------------------------------------------------------------------------- implementation helpers
class Timeout(Exception):
    pass


def _alarm(signum, frame):
    raise Timeout()


def with_alarm(seconds, f, *a, **k):
    old = signal.signal(signal.SIGALRM, _alarm)
    signal.setitimer(signal.ITIMER_REAL, seconds)
    try:
        return f(*a, **k)
    finally:
        signal.setitimer(signal.ITIMER_REAL, 0)
        signal.signal(signal.SIGALRM, old)


def import_freephil():
    """Import freephil from /repo/src (the current working tree) - never from elsewhere.
    VERIF_IMPL_SRC overrides the location for mutation experiments on scratch copies only
    (registered checks never set it)."""
    src = os.environ.get("VERIF_IMPL_SRC", "/repo/src")
    if src not in sys.path:
        sys.path.insert(0, src)
    os.environ.setdefault("FREEPHIL_VERIF", "1")
    import warnings

    warnings.filterwarnings("ignore")
    import freephil

    f = os.path.realpath(freephil.__file__)
    if not f.startswith(os.path.realpath(src) + "/"):
        raise HarnessError("freephil imported from %s, not %s" % (f, src))
    return freephil


def exc_class(e):
    """Canonical class of an exception escaping the implementation."""
    import freephil

    if isinstance(e, freephil.Sorry):
        return "Sorry"
    if type(e) is RuntimeError:
        return "RuntimeError"
    if isinstance(e, RuntimeError):
        return "RuntimeError"
    return "other:" + type(e).__name__


_LINE_RE = re.compile(r"\((?:[^()]*, )?(?:input )?line (\d+)\)")


def err_line(msg):
    """Line number cited in an error message ('(input line 3)' / '(src, line 3)'), else 0."""
    m = None
    for m in _LINE_RE.finditer(msg):
        pass
    return int(m.group(1)) if m else 0


def qcode(quote_token):
    return {None: "n", "'": "1", '"': "2", "'''": "s", '"""': "d"}[quote_token]


def word_obs(w, with_line=True):
    return [w.value, qcode(w.quote_token), str(w.line_number or 0) if with_line else "0"]


# ----------------------------------------------------------------------------- tree codec (mirrors coq/theories/Model/Tree.v)
DEF_ATTRS = ["help", "caption", "short_caption", "optional", "type", "multiple", "input_size", "style",
             "expert_level", "deprecated", "alias"]
SCOPE_ATTRS = ["style", "help", "caption", "short_caption", "optional", "call", "multiple", "sequential_format",
               "disable_add", "disable_delete", "expert_level", "alias"]


def _optz(v):
    return [] if v is None else [int(v)]


def _is_int(v):
    return v is None or (isinstance(v, int) and not isinstance(v, bool))


def ty_sx(t):
    """converter instance -> wire form of Tree.ty"""
    pt = getattr(t, "phil_type", None)
    if pt in ("words", "strings", "str", "qstr", "path", "key", "bool") and type(t).__name__ == pt + "_converters":
        return [pt]
    if pt == "int" and type(t).__name__ == "int_converters" and _is_int(t.value_min) and _is_int(t.value_max):
        return ["int", _optz(t.value_min), _optz(t.value_max), bool(t.allow_none)]
    if pt == "ints" and type(t).__name__ == "ints_converters" and all(
            _is_int(v) for v in (t.size_min, t.size_max, t.value_min, t.value_max)):
        return ["ints", _optz(t.size_min), _optz(t.size_max), _optz(t.value_min), _optz(t.value_max),
                bool(t.allow_none_elements), bool(t.allow_auto_elements)]
    if pt == "choice" and type(t).__name__ == "choice_converters":
        return ["choice", bool(t.multi)]
    return ["other", str(t)]


def aval_sx(name, v):
    import freephil

    if v is None:
        return None
    if v is freephil.Auto or isinstance(v, type(freephil.Auto)):
        return ["auto"]
    if isinstance(v, bool):
        return ["bool", v]
    if isinstance(v, int):
        return ["int", v]
    if isinstance(v, str):
        return ["str", v]
    if name == "type":
        return ["type", ty_sx(v)]
    return ["type", ["other", str(v)]]  # .call proxies etc.: a non-string object printed via str()


_WHERE_RE = re.compile(r"line (\d+)\)$")


def where_line(where_str):
    m = _WHERE_RE.search(where_str or "")
    return int(m.group(1)) if m else 0


def hdr_sx(o):
    return [o.name, bool(o.is_disabled), int(o.is_template), bool(o.merge_names), int(o.primary_id or 0),
            where_line(o.where_str)]


def obj_sx(o):
    """freephil definition/scope -> wire form of Tree.obj"""
    names = DEF_ATTRS if o.is_definition else SCOPE_ATTRS
    at = []
    for n in names:
        v = aval_sx(n, getattr(o, n))
        if v is not None:
            at.append([n, v])
    if o.is_definition:
        return ["def", hdr_sx(o), [[w.value, qcode(w.quote_token), int(w.line_number or 0)] for w in o.words], at]
    return ["scope", hdr_sx(o), [obj_sx(k) for k in o.objects], at]


def objs_sx(scope):
    return [obj_sx(o) for o in scope.objects]


def canon(x):
    """Normalise a python value built for enc() into the shape dec() returns (all atoms as str)."""
    if isinstance(x, bool):
        return "1" if x else "0"
    if isinstance(x, int):
        return str(x)
    if isinstance(x, (list, tuple)):
        return [canon(y) for y in x]
    if isinstance(x, bytes):
        return x.decode("latin-1")
    return x


def strip_tree(t, keep_line=False, keep_pid=False, keep_tmpl=True, keep_merge=True):
    """Canonical tree (as returned by dec or canon(obj_sx)) with selected header fields blanked."""
    kind, h, body, at = t
    h = list(h)
    if not keep_tmpl:
        h[2] = "0"
    if not keep_merge:
        h[3] = "0"
    if not keep_pid:
        h[4] = "0"
    if not keep_line:
        h[5] = "0"
    if kind == "def":
        body = [[w[0], w[1], w[2] if keep_line else "0"] for w in body]
    else:
        body = [strip_tree(k, keep_line, keep_pid, keep_tmpl, keep_merge) for k in body]
    return [kind, h, body, at]


# ----------------------------------------------------------------------------- theorems
def check_theorems(pid, thorough=False):
    """Re-compile Properties/<pid>.v; return dict(obligations, discharged, names, assumptions, ok, log, cmd)."""
    src = "%s/theories/Properties/%s.v" % (COQ, pid)
    out = {"obligations": 0, "discharged": 0, "names": [], "assumptions": {}, "ok": False, "log": "", "cmd": "", "broken": []}
    if not os.path.exists(src):
        out["log"] = "missing " + src
        return out
    text = open(src).read()
    names = re.findall(r"^\s*(?:Theorem|Lemma|Corollary)\s+(\w+)", text, re.M)
    out["names"] = names
    out["obligations"] = len(names)
    tmpd = "%s/tmp/%s.%d" % (BUILD, pid, os.getpid())
    os.makedirs(tmpd, exist_ok=True)
    vo = "%s/%s.vo" % (tmpd, pid)
    cmd = ["timeout", "900", "coqc", "-Q", COQ + "/theories", "Phil", "-o", vo, src]
    out["cmd"] = "cd /verif/coq && make (all dependencies, full .vo) && " + " ".join(cmd[2:])
    p = subprocess.run(cmd, stdout=subprocess.PIPE, stderr=subprocess.PIPE, cwd=COQ)
    import shutil
    shutil.rmtree(tmpd, ignore_errors=True)
    stdout = p.stdout.decode("utf-8", "replace")
    out["log"] = (stdout + p.stderr.decode("utf-8", "replace"))[-4000:]
    # split Print Assumptions output: one block per request, in order
    blocks = re.split(r"(?m)^(?=Closed under the global context|Axioms:)", stdout)
    blocks = [b.strip() for b in blocks if b.strip().startswith(("Closed under", "Axioms:"))]
    pa = re.findall(r"Print Assumptions\s+(\w+)", text)
    for name, b in zip(pa, blocks):
        out["assumptions"][name] = " ".join(b.split())
    if p.returncode == 0:
        out["discharged"] = sum(1 for n in names if n in out["assumptions"])
        out["broken"] = [n for n in names if n not in out["assumptions"]]
        out["ok"] = out["discharged"] == out["obligations"] and out["obligations"] > 0
    else:
        m = re.search(r'line (\d+)', out["log"])
        broken = None
        if m:
            ln = int(m.group(1))
            upto = text.split("\n")[:ln]
            prev = re.findall(r"^\s*(?:Theorem|Lemma|Corollary|Example)\s+(\w+)", "\n".join(upto), re.M)
            broken = prev[-1] if prev else None
        out["broken"] = [broken or "<compile error before first theorem: a dependency no longer builds>"]
    if thorough and out["ok"]:
        out["coqchk"] = run_coqchk(pid)
    return out


def run_coqchk(pid):
    t = time.time()
    p = subprocess.run(
        ["timeout", "1500", "coqchk", "-silent", "-o", "-Q", COQ + "/theories", "Phil", "Phil.Properties." + pid],
        stdout=subprocess.PIPE, stderr=subprocess.STDOUT, cwd=COQ)
    txt = p.stdout.decode("utf-8", "replace")
    return {"rc": p.returncode, "wall_s": round(time.time() - t, 1), "tail": txt[-1500:]}


def ensure_built(pid, clusters):
    """Incremental build of this property's cone only (normally a no-op after setup): the .vo files
    Properties/<pid>.v and the clusters' entry files depend on, and the clusters' drivers."""
    import fcntl

    os.makedirs(BUILD, exist_ok=True)
    with open(BUILD + "/.lock", "w") as lk:
        fcntl.flock(lk, fcntl.LOCK_EX)
        targets = ["theories/Properties/%s.vo" % pid] + ["theories/Model/Entry%s.vo" % c for c in clusters]
        p = subprocess.run([V + "/build.sh", "cone"] + targets, stdout=subprocess.PIPE, stderr=subprocess.PIPE)
        cone_ok = p.returncode == 0
        cone_log = p.stderr.decode("utf-8", "replace")[-3000:]
        for c in clusters:
            drv = "%s/%s/drv" % (BUILD, c)
            srcs = glob.glob(COQ + "/theories/Model/*.v") + [COQ + "/theories/Extraction/Extract%s.v" % c, V + "/ocaml/driver.ml"]
            if not os.path.exists(drv) or any(os.path.getmtime(s) > os.path.getmtime(drv) for s in srcs):
                p = subprocess.run([V + "/build.sh", "driver", c], stdout=subprocess.PIPE, stderr=subprocess.PIPE)
                if p.returncode != 0:
                    return False, p.stderr.decode("utf-8", "replace")[-3000:]
    # a cone failure is reported by check_theorems as a broken obligation, not as a harness error
    return True, "" if cone_ok else cone_log


# ----------------------------------------------------------------------------- streams
class Stream:
    """One correspondence generator + observation.  Subclasses override the methods below.
    A case must be JSON-serialisable (it is written into replay files)."""

    name = "stream"
    cluster = None  # driver cluster
    impl_timeout = 5.0

    def __init__(self, ctx):
        self.ctx = ctx

    def corpus(self):
        """Minimised regression cases; run first, every time."""
        return []

    def cases(self, rng, tier):
        raise NotImplementedError

    def impl(self, case):
        """Run the implementation; return a canonical JSON-able observation."""
        raise NotImplementedError

    def requests(self, case, impl_obs):
        """List of (op, arg) for the model driver."""
        raise NotImplementedError

    def model(self, case, replies, impl_obs):
        """Canonical observation computed from the driver replies (same shape as impl())."""
        raise NotImplementedError

    def prop(self, case, impl_obs):
        """The property's own statement on the implementation: None if it holds on this case,
        else a short description of what fails."""
        return None

    def in_domain(self, case):
        """Whether prop() is expected to hold for this case (domain of the theorem)."""
        return True

    def key(self, case, impl_obs):
        """Hashable key for distinct/non-trivial counting, or None if the case is trivial."""
        return json.dumps(case, sort_keys=True)

    def tag(self, case, impl_obs):
        """Histogram tag (input-shape class)."""
        return "all"

    def shrink(self, case):
        """Yield smaller variants of a case."""
        return []

    def neighbours(self, case, rng):
        """Yield variants near a case, for the failing-input search."""
        return self.shrink(case)


def run_impl(stream, case):
    # a time-out may be the machine's load, not the code: one more try with a much longer bound before it counts
    for bound in (stream.impl_timeout, max(60.0, 8 * stream.impl_timeout)):
        try:
            return with_alarm(bound, stream.impl, case)
        except Timeout:
            continue
        except RecursionError:
            return ["impl-exception", "RecursionError"]
        except Exception as e:  # noqa  an exception the stream did not expect: part of the observation
            return ["impl-exception", type(e).__name__]
    return ["impl-timeout"]


def run_stream(stream, rng, tier, findings, budget_scale=1.0):
    """Runs one stream. Returns a dict with counts, samples, disagreements, property failures."""
    t0 = time.time()
    cases = list(stream.corpus())
    ncorpus = len(cases)
    cases.extend(stream.cases(rng, tier))
    impl_obs = [run_impl(stream, c) for c in cases]
    t_impl = time.time() - t0
    reqs = []
    spans = []
    def broken(o):
        # the implementation side of the case ended in an exception the stream does not expect, or did not return
        return isinstance(o, list) and len(o) >= 1 and o[0] in ("impl-timeout", "impl-exception") and len(o) <= 2

    for c, o in zip(cases, impl_obs):
        r = [] if broken(o) else stream.requests(c, o)
        spans.append((len(reqs), len(reqs) + len(r)))
        reqs.extend(r)
    t1 = time.time()
    replies = Driver(stream.cluster).pbatch(reqs, jobs=stream.ctx.jobs) if reqs else []
    t_model = time.time() - t1
    disagreements = []
    prop_failures = []
    keys = set()
    hist = {}
    unmodelled = 0
    for c, o, (a, b) in zip(cases, impl_obs, spans):
        if broken(o):
            # never on the unchanged tree; with a changed implementation this IS the failing input
            prop_failures.append({"case": c, "impl": o, "what": "the calls of this case did not complete: %r" % (o,)})
            hist["impl-exception"] = hist.get("impl-exception", 0) + 1
            continue
        m = stream.model(c, replies[a:b], o)
        if m == "UNMODELLED":
            unmodelled += 1
            continue
        if m != o:
            disagreements.append({"case": c, "impl": o, "model": m})
        if stream.in_domain(c):
            f = stream.prop(c, o)
            if f is not None:
                prop_failures.append({"case": c, "impl": o, "what": f})
        k = stream.key(c, o)
        if k is not None:
            keys.add(k)
        t = stream.tag(c, o)
        hist[t] = hist.get(t, 0) + 1
    samples = []
    step = max(1, len(cases) // 3)
    for i in range(0, len(cases), step):
        samples.append({"case": cases[i], "observation": impl_obs[i]})
        if len(samples) >= 3:
            break
    return {
        "stream": stream.name,
        "evaluations": len(cases),
        "corpus_cases": ncorpus,
        "distinct_nontrivial": len(keys),
        "unmodelled": unmodelled,
        "histogram": hist,
        "samples": samples,
        "disagreements": disagreements,
        "prop_failures": prop_failures,
        "wall_impl_s": round(t_impl, 2),
        "wall_model_s": round(t_model, 2),
    }


def safe_prop(stream, case, o):
    """stream.prop, with the observation of a call that did not complete judged here (streams need not expect it)"""
    if isinstance(o, list) and 1 <= len(o) <= 2 and o[0] in ("impl-timeout", "impl-exception"):
        return "the calls of this case did not complete: %r" % (o,)
    return stream.prop(case, o)


def still_disagrees(stream, case):
    o = run_impl(stream, case)
    if isinstance(o, list) and 1 <= len(o) <= 2 and o[0] in ("impl-timeout", "impl-exception"):
        return True, o, ["model-has-no-opinion"]
    reqs = stream.requests(case, o)
    replies = Driver(stream.cluster).batch(reqs) if reqs else []
    m = stream.model(case, replies, o)
    return m != "UNMODELLED" and m != o, o, m


def shrink_disagreement(stream, d, max_steps=200):
    case = d["case"]
    steps = 0
    improved = True
    while improved and steps < max_steps:
        improved = False
        for cand in stream.shrink(case):
            steps += 1
            try:
                bad, o, m = still_disagrees(stream, cand)
            except Exception:
                continue
            if bad:
                case = cand
                d = {"case": cand, "impl": o, "model": m}
                improved = True
                break
            if steps >= max_steps:
                break
    return d


def search_failing_input(stream, seeds, rng, tier, limit_s=120):
    """Search the implementation for an input on which the property itself fails."""
    t0 = time.time()
    found = []
    tried = 0
    pool = []
    for s in seeds:
        pool.append(s)
        pool.extend(list(stream.neighbours(s, rng))[:300])
    for c in pool:
        if time.time() - t0 > limit_s:
            break
        if not stream.in_domain(c):
            continue
        tried += 1
        o = run_impl(stream, c)
        f = safe_prop(stream, c, o)
        if f is not None:
            found.append({"case": c, "impl": o, "what": f})
            if len(found) >= 5:
                return found, tried
    rounds = 0
    while time.time() - t0 < limit_s and rounds < 10 and not found:
        rounds += 1
        for c in stream.cases(rng, tier):
            if time.time() - t0 > limit_s:
                break
            if not stream.in_domain(c):
                continue
            tried += 1
            o = run_impl(stream, c)
            f = safe_prop(stream, c, o)
            if f is not None:
                found.append({"case": c, "impl": o, "what": f})
                if len(found) >= 5:
                    break
    return found, tried


# ----------------------------------------------------------------------------- findings
def load_findings(pid):
    p = V + "/known_findings.json"
    if not os.path.exists(p):
        return []
    data = json.load(open(p))
    return [f for f in data.get("findings", []) if f.get("property") == pid]


# ----------------------------------------------------------------------------- main check
class Ctx:
    def __init__(self, pid, tier, seed):
        self.pid = pid
        self.tier = tier
        self.seed = seed
        self.jobs = int(os.environ.get("VERIF_JOBS", "12"))


def write_replay(pid, payload):
    os.makedirs(V + "/replays", exist_ok=True)
    h = hashlib.sha1(json.dumps(payload, sort_keys=True, default=str).encode()).hexdigest()[:12]
    path = "%s/replays/%s-%s.json" % (V, pid, h)
    with open(path, "w") as f:
        json.dump(payload, f, indent=1, sort_keys=True, default=str)
    return path


def run_check(pid, spec, tier, seed, replay=None):
    """spec: dict(clusters=[...], streams=[StreamClass...], trusted=[...], modelled=str,
                  match_finding=callable(finding, failure)->bool)"""
    t0 = time.time()
    ctx = Ctx(pid, tier, seed)
    ok, log = ensure_built(pid, spec["clusters"])
    if not ok:
        print("ERROR build failed:\n" + log)
        # a build failure of the (repo-independent) Coq development is a harness malfunction
        return 2
    import_freephil()
    thm = check_theorems(pid, thorough=(tier == "thorough"))
    findings = load_findings(pid)
    open_findings = [f for f in findings if f.get("status") == "open"]
    match = spec.get("match_finding", lambda finding, failure: False)

    rng = random.Random(seed * 1000003 + int(hashlib.sha1(pid.encode()).hexdigest()[:6], 16))
    results = []
    violations = []  # (kind, payload)
    known_hits = {}
    streams = [S(ctx) for S in spec["streams"]]
    if replay:
        return do_replay(pid, streams, replay)
    for st in streams:
        r = run_stream(st, rng, tier, findings)
        # classify property failures
        new_fail = []
        for pf in r["prop_failures"]:
            hit = [f for f in open_findings if match(f, pf)]
            if hit:
                known_hits.setdefault(hit[0]["id"], []).append(pf)
            else:
                new_fail.append(pf)
        r["new_prop_failures"] = new_fail
        results.append((st, r))

    # open findings must be reported on the unchanged tree (their witnesses live in the corpus)
    broken_obligations = [] if thm["ok"] else thm["broken"]
    broken_streams = [(st, r) for st, r in results if r["disagreements"]]
    direct_failures = [(st, pf) for st, r in results for pf in r["new_prop_failures"]]

    exit_code = 0
    lines = []
    for f in open_findings:
        lines.append("KNOWN-FINDING: property=%s %s: %s" % (pid, f["id"], f["what"]))
    if direct_failures:
        st, pf = direct_failures[0]
        path = write_replay(pid, {"property": pid, "kind": "property-fails-on-implementation", "stream": st.name,
                                  "case": pf["case"], "impl": pf["impl"], "what": pf["what"],
                                  "replay": "./check %s --replay <this file>" % pid})
        lines.append("VIOLATION property=%s replay=%s" % (pid, path))
        exit_code = 1
    elif broken_obligations or broken_streams:
        # search for a concrete failing input
        seeds_by_stream = {}
        minimal = []
        for st, r in broken_streams:
            d = shrink_disagreement(st, r["disagreements"][0])
            minimal.append((st, d))
            seeds_by_stream[st.name] = [d["case"]] + [x["case"] for x in r["disagreements"][1:20]]
        found = None
        tried_total = 0
        for st in streams:
            fl, tried = search_failing_input(st, seeds_by_stream.get(st.name, []), rng, tier,
                                             limit_s=60 if tier == "quick" else 300)
            tried_total += tried
            fl = [pf for pf in fl if not any(match(f, pf) for f in open_findings)]
            if fl:
                found = (st, fl[0])
                break
        payload = {"property": pid,
                   "broken_theorems": broken_obligations,
                   "broken_correspondence": [{"stream": st.name, "minimal_case": d["case"], "impl": d["impl"], "model": d["model"]}
                                             for st, d in minimal],
                   "coq_log_tail": thm["log"][-1500:] if broken_obligations else ""}
        if found:
            st, pf = found
            payload.update({"kind": "property-fails-on-implementation", "stream": st.name, "case": pf["case"],
                            "impl": pf["impl"], "what": pf["what"]})
            path = write_replay(pid, payload)
            lines.append("VIOLATION property=%s replay=%s" % (pid, path))
        else:
            payload.update({"kind": "no-longer-shown", "searched_inputs": tried_total})
            path = write_replay(pid, payload)
            lines.append("VIOLATION property=%s replay=%s no-failing-input-found" % (pid, path))
        exit_code = 1

    # evidence
    total_eval = sum(r["evaluations"] for _, r in results)
    total_distinct = sum(r["distinct_nontrivial"] for _, r in results)
    samples = []
    for st, r in results:
        for s in r["samples"][:2]:
            samples.append({"stream": st.name, **s})
    samples.append({"obligations": thm["names"]})
    cov = {
        "obligations": thm["obligations"],
        "discharged": thm["discharged"],
        "checker_cmd": thm["cmd"],
        "trusted_base": TRUSTED_BASE_COMMON + spec.get("trusted", []) +
                        ["Print Assumptions: " + "; ".join("%s: %s" % kv for kv in sorted(thm["assumptions"].items()))],
        "evaluations": total_eval,
        "distinct_nontrivial": total_distinct,
        "rule": spec.get("rule", ""),
        "samples": samples,
        "traces_validated_against_impl": total_eval,
        "theorems": thm["names"],
        "streams": [{k: r[k] for k in ("stream", "evaluations", "corpus_cases", "distinct_nontrivial", "unmodelled",
                                          "histogram", "wall_impl_s", "wall_model_s")}
                    | {"disagreements": len(r["disagreements"]), "property_failures_on_impl": len(r["prop_failures"]),
                       "of_which_known_findings": len(r["prop_failures"]) - len(r["new_prop_failures"])}
                    for _, r in results],
        "known_findings_reported": [f["id"] for f in open_findings],
        "known_finding_hits": {k: len(v) for k, v in known_hits.items()},
        "modelled_not_verified": spec.get("modelled", ""),
        "exhaustive": bool(spec.get("exhaustive", False)),
    }
    if "coqchk" in thm:
        cov["coqchk"] = thm["coqchk"]
    if cov["discharged"] == 0 or cov["obligations"] == 0:
        # the schema's proof keys require >= 1; a run in which no theorem re-checked (that is a reported
        # violation) records the fact under other names and falls back to the exploration counts
        cov["theorems_discharged"] = cov.pop("discharged")
        cov["theorems_total"] = cov.pop("obligations")
    ev = {
        "property_id": pid,
        "tier": tier,
        "seed": seed,
        "level": "proof",
        "coverage": cov,
        "assumptions": spec.get("assumptions", []),
        "wall_s": round(time.time() - t0, 2),
        "violations": 1 if exit_code == 1 else 0,
    }
    # VERIF_EVIDENCE_DIR: only for runs of the tools (seeded changes applied in a scratch worktree) so that they
    # do not overwrite the evidence of the registered commands
    evdir = os.environ.get("VERIF_EVIDENCE_DIR") or (V + "/evidence")
    os.makedirs(evdir, exist_ok=True)
    with open("%s/%s.json" % (evdir, pid), "w") as f:
        json.dump(ev, f, indent=1, sort_keys=True, default=str)
    for l in lines:
        print(l)
    print("%s %s: theorems %d/%d, correspondence cases %d (distinct non-trivial %d), disagreements %d, wall %.1fs"
          % (pid, tier, thm["discharged"], thm["obligations"], total_eval, total_distinct,
             sum(len(r["disagreements"]) for _, r in results), time.time() - t0))
    return exit_code


def do_replay(pid, streams, path):
    payload = json.load(open(path))
    name = payload.get("stream")
    case = payload.get("case")
    if case is None and payload.get("broken_correspondence"):
        name = payload["broken_correspondence"][0]["stream"]
        case = payload["broken_correspondence"][0]["minimal_case"]
    if case is None:
        print("replay names broken theorems only: %s" % payload.get("broken_theorems"))
        return 1
    for st in streams:
        if st.name == name:
            bad, o, m = still_disagrees(st, case)
            f = safe_prop(st, case, o)
            print("case: %s" % json.dumps(case))
            print("implementation: %s" % json.dumps(o))
            print("model         : %s" % json.dumps(m))
            print("property on implementation: %s" % ("holds" if f is None else "FAILS: " + f))
            if f is not None:
                print("VIOLATION property=%s replay=%s" % (pid, path))
                return 1
            return 1 if bad else 0
    print("unknown stream %s" % name)
    return 2
