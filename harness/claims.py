"""What MANIFEST.json claims, per property (gen_manifest.py turns this into MANIFEST.json)."""
NOTES = ("Every check re-compiles coq/theories/Properties/<id>.v (theorems over the hand-written Coq model, Print Assumptions captured), "
         "then runs the correspondence streams (extracted model vs. freephil imported from /repo/src) and the property's own oracle on the "
         "implementation. See DESIGN.md. known_findings.json lists recorded defects; replays/ is written only on failure.")
NOT_APPLICABLE = {}
CLAIMS = {
    "C07": {
        "text": "Theorems over the Fetch model for every env and canon (30, closed under the global context) on D07 (distinct dot-free entry names; nested multiples and further master "
                "occurrences allowed; no deprecated; stable choices; $-free) under the single oracle hypothesis H_default_canonical (for each .multiple entry k, canon of k fetched against "
                "itself = canon the master reports for k): re-fetching a result as an object is a fixed point; a master copy, the master object itself (Python's identity skip modelled), "
                "any master-like first source, or the master's own defaults M.fetch() as first source (C07_defaults_first, no well-formedness needed) change nothing (equality of outcomes incl. errors); fetching nothing = fetching the master; any history of such cycles leaves W unchanged; "
                "canon-free versions for masters without multiples. Refutations by witness exactly where the library fails: F7a (H_default_canonical false on nested non-canonical "
                "defaults), F7d (single-alternative choice). The TEXT form is proved too (C07_refetch_text, composing C07_refetch, the print/parse round trip of C01 and a "
                "line-insensitive strengthening of C05's observational lemma): fetching parse(print W) gives W up to the line numbers of value words and with identical printed forms, "
                "for masters without hidden templates and canon blind to word lines; for PARSED masters and sources (no .multiple/disabled object under a dotted prefix, printable choice "
                "alternatives) printing, parsing and re-fetching are proved to succeed (C07_refetch_text_parsed). Two obscure text-form counterexamples found by the proof are open findings. "
                "The defaults as re-parsed TEXT in front of other sources: same outcome (same error, or results equal up to word lines with identical printed forms; C07_defaults_text_first, "
                "discharged for parsed masters). No clause of the property is left to the stream alone inside the domain; outside it the open findings apply.",
        "note": "Trusted as C04 (Fetch model, canon oracle recorded per fetch call, identity probes for nested multiples). in_domain evaluates D07 incl. H_default_canonical through the "
                "library's own extract_format on every case.",
    },
    "C08": {
        "text": "Theorems over the Fetch and Vars models (19): for ALL masters/sources/env/canon every definition of a diff has a canonical text different from its master's, no scope of a diff is "
                "empty, nothing undeclared appears (C08_only_differences); on D08 (D07 + unique names + no .multiple scope, under H_self) the diff, the restore (kept values identical, "
                "dropped values back as the master's own with the same canon, multiple blocks unchanged in order), diff-of-restored = diff and empty diff of defaults are characterised "
                "block-wise. F7c refuted by witness (a further master occurrence reorders the restore). With .multiple scopes (any nesting, D07 + unique names): working blocks, the diff (partial instances keyed by "
                "their text; under the named oracle hypothesis partial_texts_ok, shown necessary), the empty diff of the defaults, the restore and diff-of-restored = diff (under restored_texts_ok). Unresolved $variables stay textual: the text written for such a reference ($name, or $(name) "
                "where the bare form would read differently; /repo cef4de5 + 9ff1177) re-reads as the same reference whatever follows it (6 theorems over the scanner model, all names, all following texts). PARTIAL: text forms, non-raising of later runs and the step from equal canonical texts to equal extracted values by stream only.",
        "note": "Trusted as C07.",
    },
    "C09": {
        "text": "Theorems over the Extract model (32, closed under the global context): per converter, from_words (as_words v) = v on exact domains - str, key, path (not starting with ~, "
                "under the expanduser hypothesis), words, strings, qstr, bool, int (py_int_of_str (str z) = z; bounds), ints, single and multi choice, None/Auto; as_words refuses "
                "out-of-domain lists / None / unknown choices; at scope level extract (format m p) = p for every well-formed master incl. nested .multiple definitions and scopes and "
                "every p in the master's domain (C09_scope, compositional over leaf round trips). Refutations by witness are the open findings (strings None, ~ expansion, single None "
                "element). PARTIAL: floats via the %.10g oracle and the text route print -> parse -> fetch -> extract and clone are decided by the stream on the implementation.",
        "note": "Trusted: Coq kernel, extraction, driver, harness, hand-written models of scope.extract/format, scope_extract.__phil_set__/__phil_join__, the text converters; Conv.v and "
                "Choice.v for numeric/choice converters; eval, expanduser and %.10g are oracles; float types inside trees unmodelled (converter-level stream instead).",
    },
    "C18": {
        "text": "Theorems over the Extract model (12, closed under the global context): every scope extract reachable in an extraction - each element of a multiple scope included - reports "
                "the full dotted path of the fields leading to it, and path.f for each field (via the invariant 'every extract sits under the key equal to its own name', preserved by "
                "__phil_set__ and __phil_join__); assignment succeeds iff the name is a field (class attributes aside), an undeclared name is refused with the full dotted path and can be "
                "injected exactly once; every master object with is_template >= 0 yields an attribute. PARTIAL: detachment (mutating extracted values never alters the tree) is aliasing "
                "and is checked on the implementation by mutating every extracted list/object and re-extracting.",
        "note": "Trusted as C09. class_attrs is compared with dir(scope_extract) on every run; parent pointers are replaced by an explicit ancestor-name list.",
    },
    "C05": {
        "text": "Theorems over the Fetch model for every env and canon oracle (20, closed under the global context). Metamorphic part (all masters incl. nested multiples, both diff "
                "flags, $-free sources): the result depends on the sources only through the observational class of their concatenation (C05_observational), hence splitting a source at "
                "a top-level boundary, spelling a path nested or dotted (the parser's wrap_dotted = single-child braces up to layout), erasing merge flags/ids/lines/attributes of "
                "source objects, and swapping adjacent unrelated objects at top level or inside any named scope never change the result. Rules part (exact, error outcomes included, any "
                "depth): the result is one block per master entry; definitions: all matches evaluated, the last wins, else the default, the first failing match decides an error; scopes: "
                "the same fetch on the concatenated children; multiples: template (is_template = 0 iff .optional is set and false) followed by dedupe_keep_last of the candidates "
                "(further master occurrences, then sources) whose canonical text differs from the master's, with dedupe_keep_last specified (last occurrence survives, each key once, "
                "order kept). PARTIAL: sources with $ and the unused-list under splitting are compared on every run, not proved; extraction lists are judged by the reference oracle.",
        "note": "Trusted as C04 (Fetch model, canon oracle recorded from the implementation). The reference oracle (independent Python transcription of the property text on extraction "
                "dumps) applies to masters without multiples inside multiple scopes.",
    },
    "C04": {
        "text": "Theorems over the Fetch model for every env and every canon oracle (closed under the global context): every Ok result has exactly the master's structure - one block per "
                "active master entry in master order, every result object carrying the master's header and attribute list, non-multiple definitions once (deprecated ones only when a "
                "source differs), scopes recursively, multiple entries as template (exact is_template rule) followed by instances, nothing undeclared (C04_shape needs no well-formedness "
                "hypothesis: ill-formed masters end in an error); disabled source objects are ignored entirely and the result depends on $-free sources only through their stripped view "
                "(splitting/positions/contexts immaterial); a disabled master object never influences the result. With $variables the disabled-sources clause holds for every PARSED source "
                "(C04_disabled_sources_ignored_any: lookup and resolution skip disabled objects; the ordering hypothesis on ids is proved of parser output and shown necessary by a hand-built "
                "counterexample; 15 theorems).",
        "note": "Trusted: Coq kernel, extraction, driver, harness, hand-written model of scope.fetch / definition.fetch* (Fetch.v) on top of Vars.v and Choice.v; the canonical rendering "
                "extract_format().as_str() is an oracle table recorded from the implementation; alias masters, custom converters, skip_incompatible_objects=True unmodelled.",
    },
    "C06": {
        "text": "Theorems over the Fetch model for every env and canon oracle: tracking does not change the result; on Ok runs with $-free sources the unused list is exactly the active "
                "source definitions (document order, path and line) whose position names no active master parameter under get_without_substitution matching (C06_exact against the "
                "specification `named`); the variable exception is stated exactly (definitions marked by resolve_variables are left out) and witnessed; scope/definition clashes never end "
                "in Ok; stale tmp marks are irrelevant for any initial marks.",
        "note": "Trusted as C04. tmp marks are modelled as consumed positions (source index + index path), not as mutable fields.",
    },
    "C12": {
        "text": "Theorems over the Vars model (34, closed under the global context): single-quoted and $-free words pass through unchanged; a sole unquoted variable yields the "
                "referenced words verbatim, any other mixture exactly one double-quoted word; the lookup finds only strictly earlier definitions, the innermost scope first, the last "
                "earlier candidate within a scope, dotted paths descend, root-anchored paths start at the root; the environment is never consulted when a definition is found; the result "
                "depends only on the part of the document before the referencing definition (truncation theorem, for document-ordered trees - and every document the parser model accepts is document-ordered: "
                "C12_parsed_documents_are_ordered, every object of a parsed document carries an id, the ids are 1, 2, ... in document order); resolution always terminates; Undefined-variable and syntax "
                "errors carry the line of the word. Dotted names are covered without exception: since /repo 2398dd1 the implicit prefix scopes of a dotted name carry the id of the object they lead to, "
                "so a LATER dotted definition is cut off like every other later object (C12_later_appended_irrelevant; for parsed documents without side condition C12_parsed_backward_only, "
                "C12_parsed_appended_irrelevant, C12_parsed_truncation_exact). diff_mode (fetch_diff) keeps an unresolved reference textual as $name, or $(name) where the bare form would read "
                "differently (diff_text; /repo cef4de5) - modelled and compared on every run. No open finding.",
        "note": "Trusted: Coq kernel, extraction, driver, harness, hand-written model of variable_substitution_proxy, resolve_variables, lexical_get; os.environ is an oracle table; "
                "tmp marks and alias paths not modelled.",
    },
    "C13": {
        "text": "Theorems over the Include model (14, closed under the global context): includes = tree-level inlining (sound and complete against an inductive expansion spec; iff when "
                "the reachable include graph is acyclic, diamonds allowed); every reachable cycle is reported as 'Include dependency cycle' with a genuine chain of include edges ending "
                "in a repeated file, never an unbounded recursion; no false cycle; termination for every finite file table; relative names resolve against the including file's directory, "
                "independent of the current directory. TEXT-level clause: the parser is compositional at object boundaries (parse (a ++ b) = parse a ++ parse b up to ids and lines, "
                "with the exact boundary conditions), one include line commutes with inlining, and for files made of plain pieces and TOP-LEVEL include lines the include-processed tree "
                "is the parse of the recursively inlined text at any depth (C13_includes_text_toplevel_partial), and likewise for include lines inside scopes at any nesting depth for "
                "files given as segment trees (C13_includes_text_scopes_partial; scopes holding an include laid out line-wise, no header attributes). PARTIAL: other layouts of "
                "such scopes are evaluated by the oracle on the implementation; 'include scope' is an oracle (unmodelled).",
        "note": "Trusted: Coq kernel, extraction, driver, harness, hand-written model of parse(process_includes)/process_includes and posixpath join/normpath/dirname/abspath "
                "(validated against os.path on 18k/72k paths); the file system + parser are one oracle table built by the real parser.",
    },
    "C20": {
        "text": "Theorems over the index state machine for arbitrary fetch/extract/format (10, closed under the global context): the invariant (cache coherent, path index = index of "
                "the working tree, stacked states re-index without raising) holds initially, is preserved by every operation and hence in every reachable state of any history; "
                "get_python_object hands out extract(working); after a push, any balanced history and the matching pop the working tree is the working tree at the push and the stack "
                "is as before (no hypothesis on the library); push/pop/set_state never raise half-way in a state satisfying the invariant; the same update twice is idempotent under "
                "H_refetch; every looked-up object sits at its recorded position of the current working tree. The machine with the unrepaired pop_state is refuted by witness (F12, "
                "fixed in /repo); F23 (push_state/set_state copied by self-fetch) is fixed in /repo d2d0b2d and its witnesses are corpus cases.",
        "note": "Trusted: Coq kernel, extraction, driver, harness, hand-written model of interface.index (state, stack, cache, path index, merge/update/delete logic). fetch/extract/format/"
                "parse are oracles replayed from the recorded real calls by content; identity is observed as positions. GUI text/style/menu indices not modelled.",
    },
    "C10": {
        "text": "Theorems for every eval oracle, every constructor-argument combination and every word list (26, closed under the global context): from_words of "
                "int/float/bool/ints/floats returns only values of the declared domain - an integer (never a float of any kind) for int, bounds respected under the exact "
                "int/float order with NaN excluded whenever a bound is set, list length within size_min/size_max, None/Auto (elements) only when enabled; accepted spellings "
                "(bool table in any case, None/Auto, 4/2, 1e3, brackets, separators) and fuel-independence of the bracket loop. Tied to converters.py by 100k (quick) / 1.4M "
                "(thorough) differential cases incl. CPython int(str), float(int) and the mixed comparison.",
        "note": "Trusted: Coq kernel, extraction, driver, harness, hand-written model of converters.py numeric part; eval is an oracle table recorded from the implementation's own "
                "eval calls; correct rounding of float(int) is validated by correspondence, not proved.",
    },
    "C17": {
        "text": "PARTIAL by nature: purity is about mutation and identity, which an immutable value model cannot violate. Theorems: the printed form is a function of the "
                "structural tree only (ids and line numbers never reach the text at any level/width/prefix), so structure-preserving copies print identically. Decided at run "
                "time on every run by call histories with a write monitor (only 'tmp' may be written on pre-existing objects), snapshots of every long-lived object after every "
                "call, repeated calls compared, copies checked for identical print/behaviour, disjointness and parent links; every as_str is also compared with the printer model.",
        "note": "Trusted: the harness's monitor and snapshots (class-level __setattr__ wrappers, no source hook); in-place list mutation is seen by snapshots only.",
    },
    "C11": {
        "text": "Theorems (all masters / sources, closed under the global context): the fetch result is exactly map (restar (requested ...)) master - alternatives, order, quotes, "
                "lines kept and the starred set characterised by the declarative predicate 'requested' (None clears; '+' names; last word naming k decides) (C11_selection, "
                "C11_alternatives_kept, C11_last_occurrence_decides, C11_none_clears); errors characterised in both directions (unknown selected -> NotAChoice naming the value and "
                "listing the master's alternatives; every error is such; unselected unknown names ignored); extraction: at most one name / master order / never empty when "
                "mandatory; fetch-then-extract composition; the '+' form is read relative to the master: the complete unstarred list of the alternatives selects nothing, also for names containing '+' "
                "(C11_full_list_selects_nothing, /repo 2097a6c; 21 theorems). Refutations by witness: F9 (upper-case '+' name), shadowed star ('x *x'), residual '*' outside wf.",
        "note": "Trusted: Coq kernel, extraction, driver, harness, hand-written model of choice_converters (fetch, from_words, as_words, __str__). No oracles. "
                "wf_choice_master (names distinct up to case, no residual '*', not none/auto) is a stated hypothesis only where names matter.",
    },
    "C14": {
        "text": "Theorems (all strings / masters / target lists, 27, closed under the global context): get_path_score equals the declarative 9-class classification (iff) with "
                "find/startswith/endswith given list-level specs; the numeric order is exactly the property's preference order (iff); a full path ALWAYS addresses its parameter, for "
                "any master (targets are the duplicate-free dotted paths of active non-include definitions, first occurrence kept); the decision is Chosen iff unique maximiser, "
                "Chosen-with-warning iff the best score is shared and this position alone has the lowest expert level among the best, Ambiguous with exactly the list of best "
                "candidates, Unknown iff all scores are 0, nothing else; whatever is chosen is a best match (C14_chosen_is_best); process_args maps the arguments in order. "
                "PARTIAL for value transfer and process_and_fetch = fetch of individually interpreted arguments, which the oracle checks on the implementation.",
        "note": "Trusted: Coq kernel, extraction, driver, harness, hand-written model of command_line.py + all_definitions. The float tie-break score-level/100 is modelled by "
                "the integer key 100*score-level among equal scores, exact for levels within +-2^40; beyond that the entry answers 'unmodelled'. Argument parsing, re-rendering and "
                "fetch are not in this model.",
    },
    "C01": {
        "text": "Theorems (closed under the global context): for EVERY text the parser model accepts that has no deprecated definition and no include line, parse -> print at attributes "
                "level 0 (any width) -> parse gives the same names, nesting, order, disabled marks, merge flags, word texts and quote styles, and the second print is byte-identical "
                "(C01_parse_print_parse_level0 via C01_parsed_trees_in_domain + C01_tree_level0 + C01_text_fixpoint_level0); level 3 for trees whose attributes are the bool/int ones, levels 3 and 2 also for string-valued attributes with any characters that fit on their printed line (not re-flowed); "
                "value words of a definition survive print -> parse at every width (continuation backslashes incl.); quoted words read back exactly; the parser never yields a lone "
                "backslash word. Deprecated definitions: level 3 prints them with the warning comment line and they come back with their .deprecated value, level 2 parses to the tree without them; dotted names at every "
                "level >= 1 (21 theorems). PARTIAL: re-flowed (wrapped) attribute texts, .type/.call and dotted names together with deprecated definitions at level 2 are decided on every run by running parse -> "
                "print -> parse -> print in freephil and in the extracted parser/printer model on rich generated documents and by the oracle comparing the trees under the level's view.",
        "note": "Trusted: Coq kernel, extraction, driver, harness, hand-written models of tokenizer.py, parser.py, the printer in common.py, str(converter); textwrap.wrap "
                "modelled for the options the code passes; float converters carried as printed text.",
    },
    "C19": {
        "text": "Theorems over the printer (and parser) model for all trees/widths/prefixes (closed under the global context): printing with expert level k is byte-identical to printing "
                "the pruned tree without filter (side condition wf_show, which every parsed document with numeric expert levels satisfies: C19_parsed_trees_are_wf); a negative level "
                "shows everything; attributes level 0 prints no attribute, visibility is monotone in the level, level 1 shows only help/alias, level 2 only set attributes; a prefix without "
                "newline is prepended to every printer line and changes nothing else; the filtered text parses to exactly the allowed sub-tree at level 0 (every tree of the parser's "
                "shape, no hypothesis on the levels) and at every attributes level >= 1 on the domain stree_ok (bool/int attributes, and string-valued help/caption/short_caption/style/alias "
                "with any characters that fit on their printed line): the re-parsed tree carries exactly the attributes visible at that level; the trees re-parsed from any two levels >= 0 agree once "
                "attributes are ignored; the same for deprecated definitions at level 3 and dotted names at every level >= 1, pruning preserving those domains (28 theorems). PARTIAL: re-flowed (wrapped) texts, .type / .call / Auto-valued attributes in the re-parse "
                "clauses are decided by correspondence (text byte for byte) + oracle on every run.",
        "note": "Trusted as C01. The oracle's view() is the property text made executable.",
    },
    "C02": {
        "text": "Proof + full correspondence. Global theorem (all trees, all texts, every oracle, closed under the global context): an inductive layout grammar Renders t s (layout "
                "between objects, blanks around '=', blank runs between words, newline / ';' / trailing comment / end of input as terminators, brace placement, '!', nested braces "
                "or dotted names) is sound - every spelling of a tree parses to that tree - hence any two spellings of one tree parse alike, dotted and braced spellings agree up to the "
                "merge flag, the printer's layout is one of the spellings, and the grammar is generated by decorated trees; each restriction of the grammar is shown necessary by an "
                "Example. Stage B (RendersB) adds backslash continuation lines, attribute lines of definitions and scopes (oracle-free values; attributes are KEPT by the erasure) and the "
                "#phil __ON__/__OFF__/__END__ directives, with soundness, agreement (also up to the order of attribute lines), inclusion of stage A and 'the printer's output is a "
                "rendering at every width'. Local theorems: layout in front of any object at any depth (exact equality of collect_objects one position later), blanks around '=', newline versus ';', "
                "trailing comment, '!' disables exactly one construct (identical results and errors otherwise), fuel irrelevance, token-level layout insensitivity. NOT in the grammar: "
                "in-quote continuation lines, .type/.call attribute values, include lines, an OFF region open to the end of input - decided on every run by executing freephil and the extracted parser on bounded-exhaustive + random renderings of "
                "abstract trees from the layout sampler and by the oracle comparing with the abstract tree.",
        "note": "Trusted: Coq kernel, extraction, driver, harness, hand-written model of tokenizer.py/parser.py, the layout grammar's notion of rendering. "
                "Oracles: .type/.call construction, eval-based integers.",
    },
    "C15": {
        "text": "Theorems over the tokenizer + parser model for every input and every oracle table (closed under the global context): every token carries the line of its first "
                "character whatever precedes it; the '#phil __OFF__' scanner keeps the line counter consistent for any region content; every scope/definition of a parsed tree "
                "reports the line of the word that named it and every value word its own line (parse_lines_ok); every error cites the line of the token it names, the last line for a "
                "missing closing quote, no line, or a line handed through from an oracle answer. Tied to the code by comparing every line freephil reports with the model's on "
                "renderings whose generator records the true line of every token, on malformed variants and on token soup.",
        "note": "Trusted: Coq kernel, extraction, driver, harness, hand-written model of tokenizer.py/parser.py. Lines of unused-definition reports and value errors are "
                "covered by C06 / C10 streams; source_info label not varied; attributes carry no line in the model.",
    },
    "C16": {
        "text": "PARTIAL proof + correspondence. Theorem: the tokenizer model never yields an internal error and always terminates (fuel never exhausted). "
                "For parse and the argument interpreter the model's outcome class (Ok/UErr/Crash) is compared with the implementation's exception class on token "
                "soup and mutated documents, and for every numeric/bool converter on value texts incl. inf, nan, 1e999, huge integers, empty brackets, stray operators; "
                "any non-RuntimeError/Sorry exception is a violation unless listed in known_findings.json (F18 .call, F21 digit limit). Theorems: tokenizer never crashes; "
                "parse never ends in an internal error unless an oracle function (.type/.call construction, eval-based integer) does, and always returns; fetch: its possible internal "
                "errors are exactly characterised and none occurs for a crash-free canon oracle, choice masters listing their alternatives and parsed sources; from_words / as_words of "
                "every numeric/bool converter with any constructor arguments: no internal error for non-empty word lists and a total eval oracle (resp. well-typed values); extract: no "
                "internal error on trees satisfying extract_wf (evaluated on every fetch result of the streams), crash kinds characterised.",
        "note": "Trusted as C02. Converter value texts: C10 stream; text-like converters (str, path, key, qstr, strings, words) on hostile texts incl. NUL bytes; "
                "the clause 'every call returns' for calls that loop inside C code (regular expressions) is checked by stream 'returns': a fixed list of long improper names / "
                "references / values in a child interpreter with a 30 s bound. eval bombs are not generated (a value like 9**9**9**9 does not return: limitation).",
    },
    "C03": {
        "text": "Full-strength theorems (all strings over Latin-1, all four quote styles, any following text, both tokenizer contexts; plus C03_in_document at PARSER level: "
                "the quoted text as value of a definition followed by a further definition parses to exactly that word, the next definition intact on the right line): "
                "nw (quote_str q s ++ rest) returns exactly the word (s,q), leaves rest, advances the line counter by the newlines of s; "
                "tokenize_value_literal (quote_str q s) = [word]. Tied to the code by exhaustive-to-length-4/5 + random differential execution "
                "of quote_python_str / word_iterator against the extracted model on every run.",
        "note": "Trusted: Coq kernel, extraction (ExtrOcamlBasic), OCaml driver, Python harness, hand-written model of tokenizer.py; "
                "theorems closed under the global context (no axioms). Code points >= 256 not covered. The parse-level clause "
                "(following definitions intact) is proved at tokenizer level and checked at parse level by the oracle on the implementation.",
    },
}
