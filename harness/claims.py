"""What MANIFEST.json claims, per property (gen_manifest.py turns this into MANIFEST.json)."""
NOTES = ("Every check re-compiles coq/theories/Properties/<id>.v (theorems over the hand-written Coq model, Print Assumptions captured), "
         "then runs the correspondence streams (extracted model vs. freephil imported from /repo/src) and the property's own oracle on the "
         "implementation. See DESIGN.md. known_findings.json lists recorded defects; replays/ is written only on failure.")
NOT_APPLICABLE = {}
CLAIMS = {
    "C03": {
        "text": "Full-strength theorems (all strings over Latin-1, all four quote styles, any following text, both tokenizer contexts): "
                "nw (quote_str q s ++ rest) returns exactly the word (s,q), leaves rest, advances the line counter by the newlines of s; "
                "tokenize_value_literal (quote_str q s) = [word]. Tied to the code by exhaustive-to-length-4/5 + random differential execution "
                "of quote_python_str / word_iterator against the extracted model on every run.",
        "note": "Trusted: Coq kernel, extraction (ExtrOcamlBasic), OCaml driver, Python harness, hand-written model of tokenizer.py; "
                "theorems closed under the global context (no axioms). Code points >= 256 not covered. The parse-level clause "
                "(following definitions intact) is proved at tokenizer level and checked at parse level by the oracle on the implementation.",
    },
}
