"""C11 - choices keep the master's alternatives and select only what was asked.

Streams
  chartable      isspace/lower tables (shared preamble, cluster Tok)
  fetch_parsed   master and source built by freephil.parse; scope-level master.fetch(source) and extract()
  fetch_direct   choice_converters.fetch / from_words called on hand-made word lists (also lists the parser
                 cannot produce: empty, blanks inside bare words, ignore_errors=True, optional=Auto)
  as_words       choice_converters.as_words on Python values
  type_str       str(choice_converters(multi))

A word travels as [value, quote-code, line]; quote codes as in vlib.qcode.
"""
import itertools
import re

import vlib
from vlib import Stream, exc_class, import_freephil, qcode

from c03 import CharTable

QTOK = {"n": None, "1": "'", "2": '"', "s": "'''", "d": '"""'}
OPTS = ["None", "True", "False"]


# ----------------------------------------------------------------------------- plain helpers
def unstar(v):
    return v[1:] if v.startswith("*") else v


def key_of(v):
    return unstar(v).lower()


def is_plain(ws, name):
    return len(ws) == 1 and ws[0][1] == "n" and ws[0][0].lower() == name


def mand_of(opt):
    return opt == "False"


def kind_of(msg):
    for pre, k in (("Not a possible choice for", "NotAChoice"), ("Multiple choices for", "MultipleChoices"),
                   ("Unspecified choice for", "UnspecifiedChoice"), ("Invalid choice", "InvalidChoice"),
                   ("Empty list for mandatory", "EmptyMandatory"), ("Improper master choice", "ImproperMaster")):
        if msg.startswith(pre):
            return k
    return "?"


_WHERE_TAIL = re.compile(r" \((?:input )?line \d+\)$")


def parse_not_a_choice(msg):
    """(offending value, listed alternatives) from the Sorry text (harness-side only)."""
    lines = msg.split("\n")
    first = lines[0]
    m = re.match(r"Not a possible choice for [^:]*: ", first)
    value = first[m.end():] if m else first
    w = _WHERE_TAIL.search(value)
    line = re.search(r"(\d+)\)$", w.group(0)).group(1) if w else "0"
    value = _WHERE_TAIL.sub("", value)
    alts = []
    if len(lines) >= 2 and lines[1].strip() == "Possible choices are:":
        alts = [l[4:] if l.startswith("    ") else l for l in lines[2:]]
    return value, alts, line


def err_obs(e):
    cls = exc_class(e)
    msg = str(e)
    if cls == "Sorry" and kind_of(msg) == "NotAChoice":
        v, alts, line = parse_not_a_choice(msg)
        # the cited line is that of the offending token (not of the first word of the value)
        return ["err", "Sorry", "NotAChoice", v, alts, line]
    if cls in ("Sorry", "RuntimeError"):
        return ["err", cls, kind_of(msg)]
    return ["err", cls]


def pyv_obs(fp, v):
    if v is None:
        return ["none"]
    if v is fp.Auto or isinstance(v, type(fp.Auto)):
        return ["auto"]
    if isinstance(v, str):
        return ["str", v]
    if isinstance(v, list) and all(isinstance(x, str) for x in v):
        return ["list", list(v)]
    return ["other", repr(v)]


def words_obs(ws):
    return [[w.value, qcode(w.quote_token), str(w.line_number or 0)] for w in ws]


def opt_sx(opt):
    return {"None": ["none"], "True": ["bool", True], "False": ["bool", False], "Auto": ["auto"]}[opt]


def opt_py(fp, opt):
    return {"None": None, "True": True, "False": False, "Auto": fp.Auto}[opt]


def model_fetch_obs(r):
    if r[0] == "ok":
        return ["ok", r[1]]
    if r[0] == "notachoice":
        # "\n    ".join([]) and "\n    ".join([""]) print the same text: an empty list reads back as [""]
        return ["err", "Sorry", "NotAChoice", r[1], r[3] or [""], str(r[2])]
    if r[0] == "crash":
        return ["err", "other:" + r[1]]
    return ["model?", r]


def model_res_obs(r):
    """reply of sx_res (value already canonical) -> observation"""
    if r == []:
        return []
    if r[0] == "ok":
        return ["ok", r[1]]
    if r[0] == "uerr":
        return ["err", "Sorry" if r[1] == "NotAChoice" else "RuntimeError", r[1]]
    if r[0] == "crash":
        return ["err", "other:" + r[1]]
    return ["model?", r]


# ----------------------------------------------------------------------------- the property's own statement
def well_formed_master(mw):
    """domain of the theorems that speak about names: distinct names up to case, no name that
    still starts with '*' after removing the selection star, none called none/auto"""
    names = [unstar(w[0]) for w in mw]
    keys = [n.lower() for n in names]
    return (len(mw) >= 1 and len(set(keys)) == len(keys) and all(not n.startswith("*") for n in names)
            and all(k not in ("none", "auto") for k in keys))


def plus_form(sw, mw=None):
    # the complete list of the master's alternatives, unstarred, is what format() writes when nothing is selected: it is
    # not the a+b form, also if names contain "+" (the reading fixed by /repo 2097a6c; C09 needs that text to read back)
    if mw is not None and [w[0] for w in sw] == [unstar(m[0]) for m in mw]:
        return False
    if any(w[1] != "n" or w[0].startswith("*") for w in sw):
        return False
    if not any("+" in w[0] for w in sw):
        return False
    return all(p.strip() != "" for p in "".join(w[0] for w in sw).split("+")[1:])


def asked(sw, mand, mw=None):
    """What the source asks for, read off the property text.
    -> ("auto",) | ("sel", selected names as written (flagged occurrences, in order), {key: final decision})"""
    if is_plain(sw, "auto"):
        return ("auto",)
    if is_plain(sw, "none") and not mand:
        return ("sel", [], {})
    if plus_form(sw, mw):
        names = [p for w in sw for p in w[0].split("+") if p != ""]
        return ("sel", names, {n.lower(): True for n in names})
    flagged = []
    final = {}
    for w in sw:
        sel = w[0].startswith("*") or len(sw) == 1
        if sel:
            flagged.append(unstar(w[0]))
        final[key_of(w[0])] = sel  # the last occurrence decides
    return ("sel", flagged, final)


def prop_fetch(mw, sw, multi, opt, F, E, check_lines=True):
    mand = mand_of(opt)
    keys = [key_of(w[0]) for w in mw]
    a = asked(sw, mand, mw)
    if a[0] == "auto":
        if F != ["ok", [["Auto", "n", "0"]]]:
            return "source Auto: result words are %r" % (F,)
        if E != ["ok", ["auto"]]:
            return "source Auto: extraction gave %r" % (E,)
        return None
    _, names, final = a
    unknown = [n for n in names if n.lower() not in keys]
    if unknown:
        if F[0] != "err" or F[1:3] != ["Sorry", "NotAChoice"]:
            return "selected name(s) %r are not alternatives but no 'not a possible choice' error: %r" % (unknown, F)
        if F[3] not in unknown:
            return "error names %r which is not one of the unknown selected names %r" % (F[3], unknown)
        if [unstar(x) for x in F[4]] != [unstar(w[0]) for w in mw]:
            return "error lists alternatives %r, master has %r" % (F[4], [w[0] for w in mw])
        return None
    if F[0] != "ok":
        return "every selected name is an alternative, yet fetch failed: %r" % (F,)
    rw = F[1]
    if len(rw) != len(mw):
        return "result has %d alternatives, master has %d" % (len(rw), len(mw))
    for r, m in zip(rw, mw):
        if unstar(r[0]) != unstar(m[0]) or r[1] != m[1] or (check_lines and r[2] != str(m[2])):
            return "alternative %r became %r" % (m, r)
    want = [bool(final.get(k, False)) for k in keys]
    got = [r[0].startswith("*") for r in rw]
    if want != got:
        return "starred %r, requested %r" % ([r[0] for r in rw if r[0].startswith("*")],
                                             [unstar(m[0]) for m, s in zip(mw, want) if s])
    sel = [unstar(r[0]) for r in rw if r[0].startswith("*")]
    return prop_extract(sel, multi, mand, E)


def prop_extract(sel, multi, mand, E):
    if E[0] == "ok" and mand and E[1] in (["none"], ["list", []]):
        return "extraction gave %r although .optional = False" % (E[1],)
    if multi:
        want = ["err", "RuntimeError", "UnspecifiedChoice"] if (not sel and mand) else ["ok", ["list", sel]]
    elif len(sel) == 0:
        want = ["err", "RuntimeError", "UnspecifiedChoice"] if mand else ["ok", ["none"]]
    elif len(sel) == 1:
        want = ["ok", ["str", sel[0]]]
    else:
        want = ["err", "RuntimeError", "MultipleChoices"]
    if E != want:
        return "extraction gave %r, selected names are %r" % (E, sel)
    return None


# ----------------------------------------------------------------------------- generators
def mkw(v, q=None):
    if q is None:
        q = "2" if (" " in v or v == "") else "n"
    return [v, q]


def render_word(w):
    v, q = w[0], w[1]
    if q == "n":
        return v
    t = QTOK[q]
    return t + v + t


def render(ws):
    return " ".join(render_word(w) for w in ws)


def case_variants(v):
    out = []
    for x in (v, v.lower(), v.upper(), v.swapcase()):
        if x not in out:
            out.append(x)
    return out


def sources_for(alts, rich=True):
    """Word lists (each word [value, q]) spelling every form of the quantifier relative to the
    alternatives `alts` (un-starred values)."""
    V = list(alts)
    out = []

    def add(ws):
        ws = [w if isinstance(w, list) else mkw(w) for w in ws]
        if ws and ws not in out:
            out.append(ws)

    n = len(V)
    # full listings with starred subsets
    subsets = list(itertools.product([0, 1], repeat=n)) if n <= 4 else \
        [tuple(1 if i == j else 0 for i in range(n)) for j in range(n)] + [tuple([1] * n), tuple([0] * n)]
    for S in subsets:
        add([("*" if s else "") + v for v, s in zip(V, S)])
    add([("*" if i % 2 == 0 else "") + v.swapcase() for i, v in enumerate(V)])
    add(list(reversed([("*" if i == 0 else "") + v for i, v in enumerate(V)])))
    # starred names alone
    for k in (1, 2, 3):
        for S in itertools.combinations(range(min(n, 4)), k):
            add(["*" + V[i] for i in S])
    for v in V[:3]:
        for x in case_variants(v)[1:]:
            add(["*" + x])
    # single bare names in any case, quoted, and None / Auto
    for v in V + ["zz"]:
        for x in case_variants(v):
            add([x])
        add([mkw(v, "2")])
        add([mkw("*" + v, "2")])
    for x in ("None", "none", "NONE", "Auto", "auto", "AUTO"):
        add([x])
    add([mkw("None", "2")])
    add([mkw("Auto", "1")])
    add(["*None"])
    add(["None", V[0]])
    add(["Auto", "*" + V[0]])
    # + forms
    P = [v for v in V if " " not in v][:3]
    Pz = P + ["zz"]
    for k in (2, 3):
        for t in itertools.permutations(Pz, k):
            if k == 3 and not rich and "zz" in t:
                continue
            for f in (lambda x: x.lower(), lambda x: x):
                names = [f(x) for x in t]
                add(["+".join(names)])
                if k == 2 or rich:
                    sp = []
                    for i, x in enumerate(names):
                        if i:
                            sp.append("+")
                        sp.append(x)
                    add(sp)
    for a in P[:2]:
        b = P[-1]
        for f in (lambda x: x.lower(), lambda x: x):
            x, y = f(a), f(b)
            add(["+" + x + "+" + y])
            add([x + "+" + y + "+"])
            add([x + "++" + y])
            add([x, "+"])
            add(["+", y])
            add([x + "+", y])
            add([x, "+" + y])
            add([x + "+"])
            add(["+" + y])
            add([x, "+", "+", y])
            add([x + "+" + y, y])
            add([x + "+" + y, "*" + y])
            add([mkw(x + "+" + y, "2")])
            add([x + "+" + y, mkw(y, "2")])
            add([x + "+" + x])
    add(["+"])
    add(["++"])
    # unknown names, starred or not
    v = V[0]
    for ws in (["*zz"], ["zz", v], ["*zz", v], [v, "zz"], [v, "*zz"], ["*" + v, "zz"], ["*" + v, "*zz"],
               ["zz", "*zz"], ["*zz", "zz"], ["ZZ", "*zz"], ["zz", "yy"], ["zz", "*" + v, "yy"],
               ["zz", "*yy"], [mkw("zz", "2"), "*" + v], [mkw("zz", "2"), mkw("*zz", "2")]):
        add(ws)
    # the same name twice
    for v in V[:2]:
        w = v.swapcase()
        for ws in (["*" + v, v], [v, "*" + v], ["*" + v, "*" + v], [v, v], ["*" + v, w], [w, "*" + v],
                   ["*" + w, v], [v, "*" + w], ["*" + v, mkw(v, "2")], [mkw(v, "2"), "*" + v]):
            add(ws)
    if n >= 2:
        a, b = V[0], V[1]
        for ws in (["*" + a, "*" + b, a], ["*" + a, b, "*" + b, a], [a, "*" + b, "*" + a, b]):
            add(ws)
    return out


POOL = ["a", "B", "ab", "Ab", "c_d", "x y"]
QUICK_MASTERS = [
    ["a", "B"], ["A", "b", "C"], ["ab", "B", "x y"], ["Ab", "a", "c_d"], ["B", "x y"],
    ["a", "B", "ab", "c_d"], ["a", "B", "ab", "c_d", "x y"],
    ["ab", "Ab"],  # names equal up to case (outside the well-formed domain, correspondence only)
    ["weg", "stra\xdfe", "strasse"], ["grob", "Ma\xdf", "fein"], ["10%", "50%", "%s_only"],
]
MORE_MASTERS = [["c_d", "Ab"], ["x y", "a", "B"], ["B", "ab", "c_d"], ["a", "ab", "Ab"], ["x y", "X Y"],
                ["A", "B", "C", "D"], ["a", "b"], ["Ab", "c_d", "x y", "B", "a"]]
ODD_NAMES = ["none", "Auto", "*a", "a+b", "+", "a*", "\xc9", "\xe9", "A+B", "", "zz", "b",
             # names that str.lower() keeps apart but str.casefold() would merge (sharp s)
             "stra\xdfe", "strasse", "Ma\xdf", "mass", "STRASSE",
             # names special to Python's string formatting (the error message lists the alternatives)
             "10%", "%s_only", "all%d", "%(x)s", "{0}"]


def star_subsets(n, rng, limit):
    allsub = list(itertools.product([0, 1], repeat=n))
    if len(allsub) <= limit:
        return allsub
    keep = [tuple([0] * n), tuple([1] * n)] + [tuple(1 if i == j else 0 for i in range(n)) for j in range(n)]
    while len(keep) < limit:
        s = tuple(rng.randint(0, 1) for _ in range(n))
        if s not in keep:
            keep.append(s)
    return keep


def master_words(alts, stars, quotes=None):
    out = []
    for i, (v, s) in enumerate(zip(alts, stars)):
        q = quotes[i] if quotes else None
        w = mkw(("*" if s else "") + v, q)
        if q is None and " " in v:
            w[1] = "1" if i % 2 else "2"
        out.append(w)
    return out


COMBOS = [(mu, o) for mu in (False, True) for o in OPTS]


class FetchParsed(Stream):
    """case = [master words [[value,q]..], source words [[value,q]..], multi, opt]"""
    name = "fetch_parsed"
    cluster = "Choice"

    def __init__(self, ctx):
        super().__init__(ctx)
        self.fp = import_freephil()

    # corpus: the two inputs on which the property used to fail (repaired in /repo: '+' form with
    # upper-case names; starred unknown name after the same name un-starred) - must pass now -
    # + spellings of the existing tests
    W_PLUS_CASE = [[["A", "n"], ["b", "n"], ["C", "n"]], [["A+b", "n"]], True, "None"]
    W_SHADOW = [[["a", "n"], ["b", "n"]], [["x", "n"], ["*x", "n"]], False, "None"]

    def corpus(self):
        return [
            self.W_PLUS_CASE, self.W_SHADOW,
            [[["A", "n"], ["b", "n"], ["C", "n"]], [["a+b", "n"]], True, "None"],
            [[["*a", "n"], ["b", "n"]], [["None", "n"]], False, "False"],
            [[["*a", "n"], ["b", "n"]], [["None", "n"]], False, "True"],
            [[["*a", "n"], ["x y", "1"]], [["x y", "2"]], False, "None"],
            [[["a", "n"], ["b", "n"]], [["*a", "n"], ["*b", "n"]], False, "None"],
            [[["*a", "n"], ["b", "n"]], [["a", "n"], ["b", "n"]], True, "False"],
            [[["**a", "n"], ["b", "n"]], [["b", "n"]], False, "None"],
        ]

    def cases(self, rng, tier):
        quick = tier == "quick"
        masters = QUICK_MASTERS if quick else QUICK_MASTERS + MORE_MASTERS
        idx = 0
        for alts in masters:
            srcs = sources_for(alts, rich=not quick or len(alts) <= 3)
            for stars in star_subsets(len(alts), rng, 8 if quick else 10):
                mw = master_words(alts, stars)
                for sw in srcs:
                    if quick:
                        combos = [COMBOS[idx % 6], COMBOS[(idx + 3 + (idx // 6) % 3) % 6]]
                        if len(alts) > 3 and sum(stars) not in (0, 1):
                            combos = combos[:1]
                    else:
                        combos = COMBOS
                    idx += 1
                    for mu, o in combos:
                        yield [mw, sw, mu, o]
        # random: larger pools, odd names, random token soups
        nrand = 6000 if quick else 50000
        toks = ["+", "*", "None", "Auto", "zz", "*zz", "ZZ", "++", "a+", "+b"]
        for i in range(nrand):
            n = rng.randint(2, 5)
            pool = POOL + (ODD_NAMES if i % 4 == 0 else []) + ["b", "C", "AB", "X Y"]
            alts = rng.sample(pool, n)
            stars = [rng.random() < 0.3 for _ in alts]
            mw = master_words(alts, stars, [rng.choice("n12") if " " not in v and v != "" and rng.random() < 0.3
                                            else None for v in alts])
            k = rng.choice([1, 1, 2, 2, 3, 4])
            sw = []
            mode = rng.randrange(4)
            for _ in range(k):
                r = rng.random()
                if r < 0.7:
                    v = rng.choice(alts)
                    v = rng.choice(case_variants(v)) if v else v
                else:
                    v = rng.choice(toks)
                if mode == 0 and rng.random() < 0.5:
                    v = "*" + v
                if mode == 1 and rng.random() < 0.6 and " " not in v:
                    v = v + "+" + rng.choice([a for a in alts if " " not in a] or ["a"]).lower()
                w = mkw(v)
                if w[1] == "n" and rng.random() < 0.1:
                    w[1] = rng.choice("12")
                sw.append(w)
            if mode == 2:
                sp = []
                for j, w in enumerate(sw):
                    if j:
                        sp.append(mkw("+"))
                    sp.append(w)
                sw = sp
            yield [mw, sw, rng.random() < 0.5, rng.choice(OPTS)]

    # ---- implementation
    def texts(self, case):
        mw, sw, multi, opt = case
        mt = "c = %s\n.type = choice(multi=%s)\n.optional = %s\n" % (render(mw), multi, opt)
        st = "c = " + render(sw)
        return mt, st

    def impl(self, case):
        mw, sw, multi, opt = case
        fp = self.fp
        mt, st = self.texts(case)
        try:
            master = fp.parse(mt)
            source = fp.parse(st)
            md, sd = master.objects[0], source.objects[0]
            got_m = [[w.value, qcode(w.quote_token)] for w in md.words]
            got_s = [[w.value, qcode(w.quote_token)] for w in sd.words]
        except BaseException as e:  # noqa
            return ["skip", "parse: " + exc_class(e)]
        if got_m != mw or got_s != sw or len(master.objects) != 1 or len(source.objects) != 1:
            return ["skip", "the parser read other words than intended"]
        wm, ws = words_obs(md.words), words_obs(sd.words)
        try:
            r = master.fetch(source=source)
            if len(r.objects) == 0:
                return ["skip", "the result has no object (a deprecated definition left at its default is dropped)"]
            F = ["ok", words_obs(r.objects[0].words)]
        except BaseException as e:  # noqa
            return [wm, ws, err_obs(e), []]
        try:
            E = ["ok", pyv_obs(fp, r.extract().c)]
        except BaseException as e:  # noqa
            E = err_obs(e)
        return [wm, ws, F, E]

    def requests(self, case, o):
        if o[0] == "skip":
            return []
        mw, sw, multi, opt = case
        return [("fetch_extract", [multi, opt_sx(opt), o[0], o[1], False])]

    def model(self, case, replies, o):
        if o[0] == "skip":
            return o
        r = replies[0]
        if r == ["badinput"]:
            return "UNMODELLED"
        return [o[0], o[1], model_fetch_obs(r[0]), model_res_obs(r[1])]

    # ---- property
    def prop(self, case, o):
        if o[0] == "skip":
            return None
        mw, sw, multi, opt = case
        return prop_fetch(o[0], o[1], multi, opt, o[2], o[3])

    def in_domain(self, case):
        return well_formed_master(case[0])

    def key(self, case, o):
        if o[0] == "skip":
            return None
        return repr(case)

    def tag(self, case, o):
        if o[0] == "skip":
            return "skip"
        mw, sw, multi, opt = case
        if is_plain(sw, "auto"):
            form = "auto"
        elif is_plain(sw, "none"):
            form = "none"
        elif plus_form(sw):
            form = "plus"
        elif len(sw) == 1:
            form = "single"
        elif any(w[0].startswith("*") for w in sw):
            form = "starred"
        else:
            form = "bare-several"
        res = o[2][0] if o[2][0] == "ok" else o[2][2] if len(o[2]) > 2 else o[2][1]
        ex = "" if not o[3] else ("/" + (o[3][1][0] if o[3][0] == "ok" else o[3][-1]))
        return "%s:%s%s" % (form, res, ex)

    def shrink(self, case):
        mw, sw, multi, opt = case
        for i in range(len(sw)):
            if len(sw) > 1:
                yield [mw, sw[:i] + sw[i + 1:], multi, opt]
        for i in range(len(mw)):
            if len(mw) > 1:
                yield [mw[:i] + mw[i + 1:], sw, multi, opt]
        for i, w in enumerate(mw):
            if w[0].startswith("*"):
                yield [mw[:i] + [[w[0][1:], w[1]]] + mw[i + 1:], sw, multi, opt]
        if multi:
            yield [mw, sw, False, opt]
        if opt != "None":
            yield [mw, sw, multi, "None"]

    def neighbours(self, case, rng):
        mw, sw, multi, opt = case
        yield from self.shrink(case)
        for mu, o in COMBOS:
            yield [mw, sw, mu, o]
        for s in sources_for([unstar(w[0]) for w in mw], rich=False)[:200]:
            yield [mw, s, multi, opt]


# ----------------------------------------------------------------------------- direct calls
DVALS = ["a", "A", "b", "*a", "*A", "*b", "+", "a+b", "A+b", "a+", "+b", "", " ", "a ", "*", "**a",
         "none", "None", "auto", "*none", "zz", "*zz", "x y", "a + b"]
DMASTERS = [["a", "b"], ["*A", "b"], ["a", "*b", "x y"], ["**a", "b"], ["none", "a"], ["*auto"], ["a"],
            ["a", "A"], [], ["None"], ["a+b", "a", "b"], ["", "a"]]


class FetchParsedDeprecated(FetchParsed):
    """the same merges into a choice parameter that is marked .deprecated = True: a deprecated parameter still keeps its
    alternatives and still refuses an unknown name (only a warning is added)"""
    name = "fetch_parsed_deprecated"

    def corpus(self):
        return [[[["fast", "n"], ["slow", "n"]], [["turbo", "n"]], False, "None"],
                [[["*fast", "n"], ["slow", "n"]], [["fast", "n"], ["*turbo", "n"]], True, "True"]] + FetchParsed.corpus(self)

    def cases(self, rng, tier):
        for i, c in enumerate(FetchParsed.cases(self, rng, tier)):
            if i % 9 == 4:
                yield c

    def texts(self, case):
        mt, st = FetchParsed.texts(self, case)
        return mt + ".deprecated = True\n", st

    def impl(self, case):
        import warnings
        old = warnings.showwarning
        warnings.showwarning = lambda *a, **k: None
        try:
            with warnings.catch_warnings():
                warnings.simplefilter("ignore")
                return FetchParsed.impl(self, case)
        finally:
            warnings.showwarning = old


class ThroughVariable(FetchParsed):
    """the same merges with the source value handed on through a variable: 'pick = <words>' then 'c = $pick' selects, stars and
    refuses exactly what 'c = <words>' does (a sole unquoted reference is replaced by the referenced words as they are).
    Oracle only."""
    name = "through_variable"

    def corpus(self):
        return [[[["exact", "n"], ["fast", "n"]], [["EXACT", "n"]], False, "None"],
                [[["a", "n"], ["b", "n"], ["c", "n"]], [["a+c", "n"]], True, "None"],
                [[["*a", "n"], ["b", "n"]], [["None", "n"]], False, "True"],
                [[["a", "n"], ["b", "n"]], [["zz", "n"]], False, "None"]]

    def cases(self, rng, tier):
        for i, c in enumerate(FetchParsed.cases(self, rng, tier)):
            if i % 11 == 5 and not any(("$" in w[0] or "\\" in w[0]) for w in c[1]):
                yield c

    def impl(self, case):
        direct = FetchParsed.impl(self, case)
        if direct[0] == "skip":
            return direct
        mt, st = self.texts(case)
        fp = self.fp
        via_text = "pick = " + st[len("c = "):] + "\nc = $pick\n"
        try:
            master = fp.parse(mt)
            source = fp.parse(via_text)
            r = master.fetch(source=source)
            if len(r.objects) == 0:
                return ["skip", "no object"]
            F = ["ok", words_obs(r.objects[0].words)]
        except (RuntimeError, fp.Sorry) as e:
            return ["cmp", direct[2], err_obs(e), direct[3], []]
        try:
            E = ["ok", pyv_obs(fp, r.extract().c)]
        except (RuntimeError, fp.Sorry) as e:
            E = err_obs(e)
        return ["cmp", direct[2], F, direct[3], E]

    def requests(self, case, o):
        return []

    def model(self, case, replies, o):
        return o

    @staticmethod
    def noline(x):
        # the line an error cites is the line of the word: line 1 in both spellings, but the text may quote "$pick"
        return x

    def prop(self, case, o):
        if o[0] != "cmp":
            return None
        if o[1] != o[2]:
            return "c = $pick with pick = %s merges to %r, the value written directly to %r" % (render(case[1]), o[2], o[1])
        if o[1][0] == "ok" and o[3] != o[4]:
            return "c = $pick with pick = %s extracts %r, the value written directly %r" % (render(case[1]), o[4], o[3])
        return None

    def in_domain(self, case):
        return True

    def key(self, case, o):
        return None if o[0] == "skip" else repr(case)

    def tag(self, case, o):
        return o[0]


class TwoStepMerge(Stream):
    """a '.multiple = True' choice merged in two steps - working = master.fetch(s1), then working.fetch(s2) - selects what
    the one-step merge master.fetch(sources=[s1, s2]) selects (the working parameters of a GUI are merged again and again).
    Oracle only."""
    name = "two_step_merge"
    cluster = "Choice"

    def __init__(self, ctx):
        super().__init__(ctx)
        self.fp = import_freephil()

    def cases(self, rng, tier):
        alts = ["a", "b", "c", "x y"]
        for _ in range(150 if tier == "quick" else 2000):
            n = rng.randint(2, 4)
            star = rng.randrange(n + 1)
            mw = " ".join(("*" if i == star else "") + ('"%s"' % v if " " in v else v) for i, v in enumerate(alts[:n]))
            def src():
                v = rng.choice(alts[:n])
                return "c = %s\n" % ('"%s"' % v if " " in v else rng.choice([v, "*" + v]))
            yield {"m": "c = %s\n.type = choice(multi=%s)\n.multiple = True\n.optional = %s\n" % (
                mw, rng.random() < 0.4, rng.choice(["None", "True"])), "s": [src(), src()]}

    def impl(self, case):
        fp = self.fp
        try:
            m = fp.parse(case["m"])
            s1, s2 = (fp.parse(t) for t in case["s"])
            one = m.fetch(sources=[s1, s2]).extract().c
            two = m.fetch(source=fp.parse(case["s"][0])).fetch(source=fp.parse(case["s"][1])).extract()
            two = getattr(two, "c", "<attribute missing>")
        except (RuntimeError, fp.Sorry) as e:
            return ["refused", exc_class(e)]
        return ["ok", repr(one), repr(two)]

    def requests(self, case, o):
        return []

    def model(self, case, replies, o):
        return o

    def prop(self, case, o):
        if o[0] == "ok" and o[1] != o[2]:
            return "merged in two steps the selections are %s, in one step %s" % (o[2], o[1])
        return None

    def tag(self, case, o):
        return o[0]


class FetchDirect(Stream):
    """case = [master words [[value,q,line]..], source words, multi, opt, ignore_errors]
    choice_converters.fetch(source_words, master, ignore_errors) and from_words on its result."""
    name = "fetch_direct"
    cluster = "Choice"

    def __init__(self, ctx):
        super().__init__(ctx)
        self.fp = import_freephil()
        from freephil import converters, tokenizer
        self.cv, self.tk = converters, tokenizer

    def corpus(self):
        return [
            [[["a", "n", 1], ["b", "n", 1]], [], False, "False", False],
            [[], [["a", "n", 1]], True, "False", False],
            [[["None", "n", 1]], [["a", "n", 1]], False, "None", False],
            [[["a", "n", 1], ["b", "n", 2]], [["*x", "n", 3], ["b", "n", 4]], False, "None", True],
            [[["a", "n", 1], ["b", "n", 2]], [["a", "n", 3], ["+ ", "n", 4]], False, "None", False],
        ]

    def cases(self, rng, tier):
        quick = tier == "quick"
        # bounded-exhaustive: all bare source lists of length <= 2 over DVALS x the fixed masters
        idx = 0
        for mv in DMASTERS:
            mw = [[v, "2" if (" " in v or v == "") else "n", i + 1] for i, v in enumerate(mv)]
            for k in (0, 1, 2):
                for t in itertools.product(DVALS, repeat=k):
                    sw = [[v, "n", 7 + j] for j, v in enumerate(t)]
                    idx += 1
                    yield [mw, sw, bool(idx % 2), ["None", "True", "False", "Auto"][idx % 4], idx % 5 == 0]
        nrand = 12000 if quick else 150000
        for i in range(nrand):
            mw = [[rng.choice(DVALS), rng.choice("nnnn12"), rng.randint(0, 3)] for _ in range(rng.randint(0, 4))]
            sw = [[rng.choice(DVALS) if rng.random() < 0.5 or not mw else
                   rng.choice(["", "*"]) + rng.choice(case_variants(unstar(rng.choice(mw)[0]))),
                   rng.choice("nnnnn12sd"), rng.randint(0, 3)] for _ in range(rng.randint(0, 4))]
            yield [mw, sw, rng.random() < 0.5, rng.choice(["None", "True", "False", "Auto"]), rng.random() < 0.3]

    def mk(self, ws):
        return [self.tk.word(value=v, quote_token=QTOK[q], line_number=(l or None)) for v, q, l in ws]

    def impl(self, case):
        mw, sw, multi, opt, ign = case
        fp = self.fp
        conv = self.cv.choice_converters(multi=multi)
        master = fp.definition(name="c", words=self.mk(mw), type=conv, optional=opt_py(fp, opt))
        try:
            r = conv.fetch(source_words=self.mk(sw), master=master, ignore_errors=ign)
            F = ["ok", words_obs(r.words)]
        except BaseException as e:  # noqa
            return [err_obs(e), []]
        try:
            E = ["ok", pyv_obs(fp, conv.from_words(r.words, master=master))]
        except BaseException as e:  # noqa
            E = err_obs(e)
        return [F, E]

    def requests(self, case, o):
        mw, sw, multi, opt, ign = case
        return [("fetch_extract", [multi, opt_sx(opt), mw, sw, ign]), ("fetch", [opt_sx(opt), mw, sw, ign])]

    def model(self, case, replies, o):
        r, r2 = replies
        if r == ["badinput"] or r2 == ["badinput"]:
            return "UNMODELLED"
        # the res-typed wrapper choice_fetch must tell the same story as choice_fetch_x
        a = model_fetch_obs(r2[0])
        b = model_res_obs(r2[1])
        if a[:3] != b[:3]:
            return ["model wrapper mismatch", a, b]
        return [model_fetch_obs(r[0]), model_res_obs(r[1])]

    def prop(self, case, o):
        mw, sw, multi, opt, ign = case
        cm = [[w[0], w[1], str(w[2])] for w in mw]
        cs = [[w[0], w[1], str(w[2])] for w in sw]
        return prop_fetch(cm, cs, multi, opt, o[0], o[1])

    def in_domain(self, case):
        mw, sw, multi, opt, ign = case
        # the property speaks about parsed definitions: at least one source word, error reporting on,
        # .optional in {None, True, False}
        return well_formed_master(mw) and len(sw) >= 1 and not ign and opt != "Auto"

    def key(self, case, o):
        return repr(case) if case[1] else None

    def tag(self, case, o):
        F = o[0]
        return "ign=%d:%s" % (case[4], F[0] if F[0] == "ok" else (F[2] if len(F) > 2 else F[1]))

    def shrink(self, case):
        mw, sw, multi, opt, ign = case
        for i in range(len(sw)):
            yield [mw, sw[:i] + sw[i + 1:], multi, opt, ign]
        for i in range(len(mw)):
            yield [mw[:i] + mw[i + 1:], sw, multi, opt, ign]
        for i, w in enumerate(sw):
            if w[1] != "n" or w[2] != 0:
                yield [mw, sw[:i] + [[w[0], "n", 0]] + sw[i + 1:], multi, opt, ign]
        if ign:
            yield [mw, sw, multi, opt, False]

    def neighbours(self, case, rng):
        mw, sw, multi, opt, ign = case
        yield from self.shrink(case)
        for v in DVALS:
            yield [mw, sw + [[v, "n", 0]], multi, opt, ign]
            yield [mw, [[v, "n", 0]] + sw, multi, opt, ign]


# ----------------------------------------------------------------------------- as_words
class AsWords(Stream):
    """case = [master words [[value,q,line]..], multi, opt, python value]"""
    name = "as_words"
    cluster = "Choice"

    def __init__(self, ctx):
        super().__init__(ctx)
        self.fp = import_freephil()
        from freephil import converters, tokenizer
        self.cv, self.tk = converters, tokenizer

    def values_for(self, names):
        vals = [["none"], ["auto"], ["str", ""], ["str", "zz"], ["list", []], ["list", ["zz"]]]
        for n in names[:3]:
            vals += [["str", n], ["str", n.swapcase()], ["str", "*" + n], ["list", [n]], ["list", [n, n]],
                     ["list", [n, "zz"]]]
        for a, b in itertools.permutations(names[:3], 2):
            vals.append(["list", [a, b]])
        vals.append(["list", list(names)])
        return vals

    def cases(self, rng, tier):
        masters = [["a", "b"], ["*A", "b", "x y"], ["a", "A", "a"], ["a", "*a"], ["**a", "b"], [], ["ab", "a", "b"]]
        for mv in masters:
            mw = [[v, "1" if " " in v else "n", i + 1] for i, v in enumerate(mv)]
            for val in self.values_for([unstar(v) for v in mv] or ["a"]):
                for mu in (False, True):
                    for o in ("None", "True", "False", "Auto"):
                        yield [mw, mu, o, val]
        n = 500 if tier == "quick" else 20000
        for _ in range(n):
            mw = [[rng.choice(DVALS), rng.choice("nnn12"), rng.randint(0, 2)] for _ in range(rng.randint(0, 4))]
            names = [unstar(w[0]) for w in mw] + ["zz", "a"]
            r = rng.random()
            if r < 0.1:
                val = ["none"]
            elif r < 0.15:
                val = ["auto"]
            elif r < 0.5:
                val = ["str", rng.choice(names)]
            else:
                val = ["list", [rng.choice(names) for _ in range(rng.randint(0, 3))]]
            yield [mw, rng.random() < 0.5, rng.choice(["None", "True", "False", "Auto"]), val]

    def impl(self, case):
        mw, multi, opt, val = case
        fp = self.fp
        conv = self.cv.choice_converters(multi=multi)
        words = [self.tk.word(value=v, quote_token=QTOK[q], line_number=(l or None)) for v, q, l in mw]
        master = fp.definition(name="c", words=words, type=conv, optional=opt_py(fp, opt))
        py = {"none": None, "auto": fp.Auto}.get(val[0], val[1] if len(val) > 1 else None)
        try:
            return ["ok", words_obs(conv.as_words(python_object=py, master=master))]
        except BaseException as e:  # noqa
            return err_obs(e)

    def requests(self, case, o):
        mw, multi, opt, val = case
        return [("as_words", [multi, opt_sx(opt), mw, val])]

    def model(self, case, replies, o):
        if replies[0] == ["badinput"]:
            return "UNMODELLED"
        return model_res_obs(replies[0])

    def key(self, case, o):
        return repr(case)

    def tag(self, case, o):
        return ("multi:" if case[1] else "single:") + (o[0] if o[0] == "ok" else o[-1])

    def shrink(self, case):
        mw, multi, opt, val = case
        for i in range(len(mw)):
            yield [mw[:i] + mw[i + 1:], multi, opt, val]
        if val[0] == "list":
            for i in range(len(val[1])):
                yield [mw, multi, opt, ["list", val[1][:i] + val[1][i + 1:]]]


class TypeStr(Stream):
    name = "type_str"
    cluster = "Choice"

    def __init__(self, ctx):
        super().__init__(ctx)
        import_freephil()
        from freephil import converters
        self.cv = converters

    def cases(self, rng, tier):
        return [[False], [True]]

    def impl(self, case):
        return str(self.cv.choice_converters(multi=case[0]))

    def requests(self, case, o):
        return [("type_str", case[0])]

    def model(self, case, replies, o):
        return replies[0]


SPEC = {
    "clusters": ["Tok", "Choice"],
    "streams": [CharTable, FetchParsed, FetchParsedDeprecated, TwoStepMerge, ThroughVariable, FetchDirect, AsWords, TypeStr],
    "rule": "fetch_parsed: fixed alternative lists (2-5 names over a, B, ab, Ab, c_d, 'x y'; all default-star subsets for "
            "lists up to 3, a sample beyond) x every source spelling generated relative to the list (starred subsets, "
            "starred names alone, bare single names in 4 case variants, quoted names, None/Auto spellings, + forms glued and "
            "spaced with leading/trailing/double +, unknown names starred or not, the same name twice with different stars) x "
            "2 of the 6 (multi, optional) combinations in quick, all 6 in thorough; plus seeded random lists and token soups. "
            "fetch_direct: all bare source lists of length <= 2 over a 24-value alphabet x 12 masters, plus random word lists with quotes, lines, ignore_errors, optional=Auto. distinct = distinct case; "
            "non-trivial = parsed as intended / non-empty source",
    "trusted": ["Modelled: tokens.is_plain_none/is_plain_auto, choice_converters.fetch (all branches), from_words, as_words, "
                "__str__; str.split/strip/find/startswith/lower on Latin-1. The parser, scope.fetch dispatch and "
                "definition.extract are exercised by the implementation side only (fetch_parsed hands the parsed words to the model)",
                "Harness-side parsing of the Sorry text (first line: offending value; lines after 'Possible choices are:')"],
    "modelled": "choice_converters modelled by hand in coq/theories/Model/Choice.v; error kinds are derived from message prefixes",
    "assumptions": ["text restricted to code points < 256", "alternative names without newlines (error text is parsed line-wise)"],
}
