"""C09 - Python objects written back to PHIL and read again are unchanged.

Streams (cluster Extract = coq/theories/Model/{PyVal,ConvText,Extract}.v extracted; Conv for floats):
  conv_roundtrip   one typed definition built by real parsing x typed Python values (in-domain, boundary,
                   out-of-domain, ill-typed): d.format(v), then .extract() of the result; the model formats the
                   same value and extracts the tree the implementation wrote.  The text route
                   parse(format(..).as_str(attributes_level=3)) -> fetch -> extract is the oracle's.
  float_roundtrip  float / floats converters (not in the tree model: Conv.v directly): as_words then
                   from_words, "%.10g" and eval supplied as oracle tables
  scope_roundtrip  generated masters (with and without .multiple) x sources: p = master.fetch(source).extract(),
                   p mutated to other in-domain values, f = master.format(p), f.extract(), master.clone(p)

A Python value travels as the wire form of PyVal.pyval (see EntryExtract.v); the same nested list,
canonicalised, is the observation.
"""
import builtins
import copy
import json
import math
import os
import re

import vlib
from vlib import Stream, exc_class, import_freephil, qcode, canon, obj_sx, strip_tree

PID = "C09"
QTOK = {"n": None, "1": "'", "2": '"', "s": "'''", "d": '"""'}


# ----------------------------------------------------------------------------- number codec (wire form of Conv.num)
def bigdec(n):
    if n < 0:
        return "-" + bigdec(-n)
    if n < 10 ** 4000:
        return str(n)
    hi, lo = divmod(n, 10 ** 2000)
    return bigdec(hi) + str(lo).rjust(2000, "0")


def hexint(n):
    return ("-%x" % -n) if n < 0 else "%x" % n


def flt_sx(x):
    if x != x:
        return ["nan"]
    if x in (math.inf, -math.inf):
        return ["inf", x < 0]
    if x == 0:
        return ["nz"] if math.copysign(1.0, x) < 0 else ["f", "0", "0"]
    n, d = x.as_integer_ratio()
    e = -(d.bit_length() - 1)
    while n % 2 == 0:
        n //= 2
        e += 1
    return ["f", bigdec(n), bigdec(e)]


def num_sx(v):
    if type(v) is bool:
        return ["b", v]
    if type(v) is int:
        return ["i", hexint(v)]
    if type(v) is float:
        return flt_sx(v)
    raise vlib.HarnessError("not a plain number: %r" % type(v))


# ----------------------------------------------------------------------------- value codec
class Codec:
    """Python values <-> wire form / JSON form."""

    def __init__(self, fp):
        self.fp = fp
        from freephil import tokenizer
        from freephil.common import scope_extract, scope_extract_list
        self.tk = tokenizer
        self.SE = scope_extract
        self.SL = scope_extract_list

    def is_auto(self, v):
        return v is self.fp.Auto or isinstance(v, type(self.fp.Auto))

    def wire(self, v):
        """Python value -> wire form of pyval.  scope_extract: fields in __dict__ order without the
        names that start and end with two underscores."""
        if v is None:
            return ["none"]
        if self.is_auto(v):
            return ["auto"]
        if isinstance(v, str):
            return ["str", v]
        if type(v) in (bool, int, float):
            return ["num", num_sx(v)]
        if isinstance(v, self.SE):
            return ["scope", object.__getattribute__(v, "__phil_name__"),
                    [[k, self.wire(x)] for k, x in v.__dict__.items() if not (k.startswith("__") and k.endswith("__"))]]
        if isinstance(v, self.SL):
            return ["slist", vlib.aval_sx("optional", v.__phil_optional__) or ["none"]] + [self.wire(x) for x in v]
        if isinstance(v, list):
            if v and all(isinstance(x, self.tk.word) for x in v):
                return ["words", [[w.value, qcode(w.quote_token), int(w.line_number or 0)] for w in v]]
            return ["list"] + [self.wire(x) for x in v]
        return ["str", "<unencodable %s>" % type(v).__name__]

    def dump(self, v):
        return canon(self.wire(v))

    def from_json(self, j):
        """JSON value spec -> Python value"""
        k = j[0]
        if k == "none":
            return None
        if k == "auto":
            return self.fp.Auto
        if k == "str":
            return j[1]
        if k == "int":
            return int(j[1])
        if k == "bool":
            return bool(j[1])
        if k == "float":
            return float.fromhex(j[1]) if "x" in j[1] else float(j[1])
        if k == "list":
            return [self.from_json(x) for x in j[1]]
        if k == "words":
            return [self.tk.word(value=w[0], quote_token=QTOK[w[1]]) for w in j[1]]
        if k == "scope":   # an extract without parent (ill-typed value for a definition)
            e = self.SE(name=j[1], parent=None, call=None)
            return e
        raise vlib.HarnessError("bad value spec %r" % (j,))


def nowords_lines(x):
    """canonical value with the line numbers of word lists blanked"""
    if isinstance(x, list):
        if x and x[0] == "words":
            if not x[1]:
                return ["list"]                    # an empty list is an empty list
            return ["words", [[w[0], w[1], "0"] for w in x[1]]]
        return [nowords_lines(y) for y in x]
    return x


# ----------------------------------------------------------------------------- error kinds (harness side only)
KIND_TABLE = [
    (r"(?s)^Error interpreting .* as a path: ", "PathRefused"),
    (r"One True or False value expected", "NotBool"),
    (r"as a numeric expression", "NotNumeric"),
    (r"as an integer expression", "NotInteger"),
    (r"as a floating-point expression", "NotFloat"),
    (r"element is less than the minimum", "BelowMin"),
    (r"element is greater than the maximum", "AboveMax"),
    (r"^Too many values", "TooMany"),
    (r"^Not enough values", "NotEnough"),
    (r"element cannot be None", "ElementNone"),
    (r"element cannot be Auto", "ElementAuto"),
    (r"cannot be None$", "CannotBeNone"),
    (r"^Multiple choices for", "MultipleChoices"),
    (r"^Unspecified choice for", "UnspecifiedChoice"),
    (r"^Invalid choice", "InvalidChoice"),
    (r"^Empty list for mandatory", "EmptyMandatory"),
    (r"^Improper master choice", "ImproperMaster"),
    (r"^Duplicate definitions in master", "DuplicateMaster"),
    (r"missing closing quote", "MissingClosingQuote"),
    (r"does not have a from_words method", "NoFromWords"),
    (r"does not have an as_words method", "NoAsWords"),
]
_KINDS = [(re.compile(p), k) for p, k in KIND_TABLE]


def err_obs(e):
    cls = exc_class(e)
    if cls in ("RuntimeError", "Sorry"):
        msg = str(e)
        kind = "?"
        for rx, k in _KINDS:
            if rx.search(msg):
                kind = k
                break
        if kind == "?":
            import parse_common
            kind = parse_common.err_kind(msg)          # errors of the parser (clone, text route)
            return ["err", cls, kind, str(parse_common.err_line(msg))]
        return ["err", cls, kind, str(vlib.err_line(msg))]
    return ["err", cls, "", "0"]


def model_res(reply, conv=lambda x: x):
    """driver reply of a res -> observation, or the string UNMODELLED"""
    if reply[0] == "ok":
        return ["ok", conv(reply[1])]
    if reply[0] == "uerr":
        if reply[1] == "Unmodelled":
            return "UNMODELLED"
        return ["err", "RuntimeError", reply[1], reply[3]]
    if reply[0] == "crash":
        if reply[1] == "OracleMissing":
            return ["model-needs-oracle"]
        return ["err", "other:" + reply[1], "", "0"]
    return ["bad-reply", reply]


def tree_obs(o):
    return strip_tree(canon(obj_sx(o)))


def all_words_str(o):
    """whether every word of a tree carries a str (an ill-typed value may have been put into a word as it is)"""
    if o.is_definition:
        return all(isinstance(w.value, str) for w in o.words)
    return all(all_words_str(k) for k in o.objects)


def model_tree(t):
    return strip_tree(t)


# ----------------------------------------------------------------------------- oracles recorded from the implementation
class Oracles:
    """Stands in for the names `eval` and `os` inside freephil.converters: records every eval result class and
    every os.path.expanduser answer the implementation obtained."""

    def __init__(self, fp):
        from freephil import converters
        self.fp = fp
        self.ev = {}
        self.ex = {}
        self.path = self
        # another stream of the same check (C16: c10's recorder) may already stand in for eval: chain to it
        self.prev_eval = converters.__dict__.get("eval", builtins.eval)
        converters.eval = self.eval
        converters.os = self

    def reset(self):
        self.ev = {}
        self.ex = {}

    def eval(self, src, g=None, l=None):
        try:
            r = self.prev_eval(src, g, l)
        except vlib.Timeout:
            raise
        except Exception:
            self.ev[src] = ["raise"]
            raise
        if r is None:
            self.ev[src] = ["none"]
        elif r is self.fp.Auto:
            self.ev[src] = ["auto"]
        elif type(r) in (bool, int, float):
            self.ev[src] = ["num", num_sx(r)]
        else:
            self.ev[src] = ["other"]
        return r

    def expanduser(self, p):
        try:
            r = os.path.expanduser(p)
        except ValueError:
            self.ex[p] = None                 # refused (e.g. a NUL byte after the tilde): the model is told so
            raise
        self.ex[p] = r
        return r

    def tables(self):
        # expanduser table: [text, expanded] | [text] (= os.path.expanduser raised ValueError)
        return [[[k, v] for k, v in self.ev.items()],
                [[k] if v is None else [k, v] for k, v in self.ex.items()]]


_ORACLES = {}


def oracles(fp):
    if "o" not in _ORACLES:
        _ORACLES["o"] = Oracles(fp)
    return _ORACLES["o"]


def open_kinds():
    return {f.get("signature") or f.get("id") for f in vlib.load_findings(PID) if f.get("status") == "open"}


# ----------------------------------------------------------------------------- typed values
ALPHA = ["'", '"', "\\", "\n", " ", "#", "{", "}", ";", "=", "a", "b", "~", ".", "*", "N"]
IDENTS = ["a", "b", "ab", "a.b", "_x", "None", "Auto", "none", "AUTO", "x1"]

# type key -> (.type text or None, default value text)
TYPES = {
    "none": (None, "x y"),
    "words": ("words", "p 'q r'"),
    "strings": ("strings", "x 'y z'"),
    "str": ("str", "hello world"),
    "qstr": ("qstr", "a 'b c'"),
    "path": ("path", "/tmp/x"),
    "key": ("key", "k1"),
    "bool": ("bool", "True"),
    "int": ("int", "1"),
    "int09": ("int(value_min=0, value_max=9)", "3"),
    "intnn": ("int(allow_none=False)", "2"),
    "ints": ("ints", "1 2"),
    "ints2": ("ints(size=2)", "1 2"),
    "ints13": ("ints(size_min=1, size_max=3, value_min=0, value_max=99)", "1"),
    "intsna": ("ints(allow_none_elements=True, allow_auto_elements=True)", "1 None"),
    "choice": ("choice", "*a b c"),
    "choicem": ("choice(multi=True)", "*a b *c"),
    # alternatives quoted in the master because their names contain a blank
    "choiceq": ("choice", 'fast "*very slow" off'),
    "choicemq": ("choice(multi=True)", '*plain "semi bold" "extra bold"'),
    # alternatives whose names hold a '+' (the character of the a+b shorthand)
    "choicep": ("choice", "sites *sites+adp sites+adp+occ none_"),
    "choicemp": ("choice(multi=True)", "*x+y z x+y+z"),
    "float": ("float", "1.5"),
    "floats": ("floats", "1.5 2"),
}
MODELLED_TYPES = [k for k in TYPES if k not in ("float", "floats")]
INT_BOUNDS = {"int": (None, None), "int09": (0, 9), "intnn": (None, None), "ints": (None, None), "ints2": (None, None),
              "ints13": (0, 99), "intsna": (None, None)}
INTS_SIZE = {"ints": (0, 6), "ints2": (2, 2), "ints13": (1, 3), "intsna": (0, 5)}
CHOICES = ["a", "b", "c"]
CHOICE_ALTS = {"choice": CHOICES, "choicem": CHOICES, "choiceq": ["fast", "very slow", "off"],
               "choicemq": ["plain", "semi bold", "extra bold"], "choicep": ["sites", "sites+adp", "sites+adp+occ", "none_"],
               "choicemp": ["x+y", "z", "x+y+z"]}
MULTI_CHOICE = ("choicem", "choicemq", "choicemp")
SINGLE_CHOICE = ("choice", "choiceq", "choicep")


def rand_str(rng, maxlen=6):
    n = rng.choice([0, 1, 1, 2, 2, 3, 4, maxlen])
    return "".join(rng.choice(ALPHA) for _ in range(n))


def rand_int(rng, lo, hi):
    if lo is not None and hi is not None:
        return rng.randint(lo, hi)
    r = rng.random()
    if r < 0.5:
        v = rng.randint(-20, 20)
    elif r < 0.8:
        v = rng.randint(-10 ** 6, 10 ** 6)
    else:
        v = rng.randint(-10 ** 40, 10 ** 40)
    if lo is not None:
        v = lo + abs(v)
    if hi is not None:
        v = hi - abs(v)
    return v


def rand_word(rng):
    q = rng.choice(["n", "n", "2", "1", "s", "d"])
    if q == "n":
        return [rng.choice(["a", "b", "x1", "1.5", "a=b", "*c", "None"]), "n"]
    return [rand_str(rng), q]


def in_domain_value(rng, tk, optional=None):
    """an in-domain value (JSON spec) for the type key; None/Auto where the type allows them"""
    r = rng.random()
    if tk not in ("intnn",) and r < 0.06 and not (tk.startswith("choice") and optional is False) and tk not in MULTI_CHOICE:
        return ["none"]
    if r < 0.12:
        return ["auto"]
    if tk in ("str", "key"):
        return ["str", rand_str(rng)]
    if tk == "path":
        s = rand_str(rng)
        return ["str", s.lstrip("~") if s.startswith("~") else s]
    if tk == "qstr":
        ws = [rand_word(rng) for _ in range(rng.randint(1, 3))]
        txt = " ".join(qtext(w) for w in ws)
        return ["str", "x" if txt.lower() in ("none", "auto") else txt]
    if tk in ("none", "strings"):
        l = [rng.choice(IDENTS) if rng.random() < 0.4 else rand_str(rng) for _ in range(rng.randint(0, 3))]
        return ["list", [["str", s] for s in l]]
    if tk == "words":
        ws = [rand_word(rng) for _ in range(rng.randint(1, 3))]
        if len(ws) == 1 and ws[0][1] == "n" and ws[0][0].lower() in ("none", "auto"):
            ws.append(["z", "n"])
        return ["words", ws]
    if tk == "bool":
        return ["bool", rng.random() < 0.5]
    if tk in ("int", "int09", "intnn"):
        lo, hi = INT_BOUNDS[tk]
        return ["int", str(rand_int(rng, lo, hi))]
    if tk.startswith("ints"):
        lo, hi = INT_BOUNDS[tk]
        smin, smax = INTS_SIZE[tk]
        n = rng.randint(smin, smax)
        l = [["int", str(rand_int(rng, lo, hi))] for _ in range(n)]
        if tk == "intsna" and n >= 2:
            for i in range(n):
                if rng.random() < 0.3:
                    l[i] = rng.choice([["none"], ["auto"]])
        return ["list", l]
    if tk in SINGLE_CHOICE:
        return ["str", rng.choice(CHOICE_ALTS[tk])]
    if tk in MULTI_CHOICE:
        sel = [c for c in CHOICE_ALTS[tk] if rng.random() < 0.5]
        if optional is False and not sel:
            sel = [CHOICE_ALTS[tk][1]]
        return ["list", [["str", c] for c in sel]]
    if tk == "float":
        return ["float", rng.choice(FLOAT_POOL)]
    if tk == "floats":
        return ["list", [["float", rng.choice(FLOAT_POOL)] for _ in range(rng.randint(0, 3))]]
    raise vlib.HarnessError("no generator for " + tk)


FLOAT_POOL = [(0.0).hex(), (-0.0).hex(), (1.5).hex(), (-2.25).hex(), (1e300).hex(), (1e-300).hex(), (5e-324).hex(), (0.1).hex(),
              (1 / 3).hex(), (123456789.123456789).hex(), (1e22).hex(), (2.0 ** 53).hex(), (1.7976931348623157e308).hex(),
              "inf", "-inf", (4.0000000001).hex(), (1234567890123.0).hex(), (9.9999999995e9).hex(), (1e-7).hex()]


def qtext(w):
    """printed form of a word spec [value, quote code]"""
    v, q = w
    tok = QTOK[q]
    if tok is None:
        return v
    return tok + v.replace("\\", "\\\\").replace(tok[0], "\\" + tok[0]) + tok


def out_of_domain_value(rng, tk):
    """(value spec, finding kind or None): a value that breaks the type's bounds / sizes / alternatives / None rule."""
    if tk == "int09":
        return ["int", str(rng.choice([-1, 10, 99, -10 ** 30]))], None
    if tk == "intnn":
        return ["none"], None
    if tk == "ints2":
        return ["list", [["int", "1"]] * rng.choice([0, 1, 3])], None
    if tk == "ints13":
        return rng.choice([["list", []], ["list", [["int", "1"]] * 4], ["list", [["int", "-1"]]], ["list", [["int", "5"], ["int", "100"]]]]), None
    if tk == "ints":
        return rng.choice([["list", [["none"]]], ["list", [["int", "1"], ["auto"]]]]), None
    if tk == "choice":
        return ["str", rng.choice(["d", "A", "", "*a"])], None
    if tk == "choicem":
        return ["list", [["str", "a"], ["str", rng.choice(["d", "B"])]]], None
    if tk == "choiceq":
        return ["str", rng.choice(["very", "slow", "Fast", "very  slow"])], None
    if tk == "choicemq":
        return ["list", [["str", "plain"], ["str", rng.choice(["bold", "semi  bold"])]]], None
    return None, None


ILL_TYPED = [["int", "5"], ["bool", True], ["float", (2.5).hex()], ["str", "abc"], ["str", ""], ["list", []],
             ["list", [["int", "1"]]], ["list", [["none"]]], ["list", [["str", "a"], ["int", "1"]]], ["scope", "s"],
             ["words", [["w", "n"]]], ["list", [["list", []]]]]


def master_text(tk, optional=None, default=None, name="a"):
    ty, dflt = TYPES[tk]
    lines = ["%s = %s" % (name, default if default is not None else dflt)]
    if ty is not None:
        lines.append(".type = %s" % ty)
    if optional is not None:
        lines.append(".optional = %s" % optional)
    return "\n".join(lines) + "\n"


# ----------------------------------------------------------------------------- converter-level stream
class ConvRoundTrip(Stream):
    """case = [type key, optional (None/True/False), value spec, tag]"""
    name = "conv_roundtrip"
    cluster = "Extract"

    def __init__(self, ctx):
        super().__init__(ctx)
        self.fp = import_freephil()
        self.cd = Codec(self.fp)
        self.orc = oracles(self.fp)
        self.masters = {}
        self.side = {}
        self.open = open_kinds()

    def corpus(self):
        return [
            # witnesses of recorded defects (in the property's domain only while listed open in known_findings.json)
            ["path", None, ["str", "~/x"], "witness:path-tilde"],
            # repaired in 65aa99d: a text os.path.expanduser refuses (NUL byte after the tilde) is a RuntimeError on
            # extraction (the model: oracle answer "refused" -> UErr PathRefused); str / key take the text as it is
            ["path", None, ["str", "~a\x00b"], "any"],
            ["path", None, ["str", "~\x00"], "any"],
            ["path", None, ["str", "a\x00~b"], "dom"],
            ["str", None, ["str", "~a\x00b"], "dom"],
            ["key", None, ["str", "~a\x00b"], "dom"],
            ["strings", None, ["list", [["str", "~a\x00b"], ["str", "\x00"]]], "dom"],
            ["intsna", None, ["list", [["none"]]], "witness:single-none-element"],
            ["ints", None, ["list", []], "witness:empty-list-text"],
            ["strings", None, ["list", [["str", "x\ny"], ["str", "z"]]], "witness:multiline-before-more"],
            # repaired in 2097a6c (formerly plus-names-no-selection): the complete unstarred list reads back as "nothing selected"
            ["choicemp", None, ["list", []], "dom"],
            ["choicep", None, ["none"], "dom"],
            # repaired defects (must pass): 7891807 a strings item spelt None/Auto is written quoted; b77ba3d scalar bounds
            ["strings", None, ["list", [["str", "None"]]], "dom"],
            ["strings", None, ["list", [["str", "auto"]]], "dom"],
            ["none", None, ["list", [["str", "Auto"]]], "dom"],
            ["int09", None, ["int", "99"], "ood"],
            ["int09", None, ["int", "-1"], "ood"],
            # an item with a line break followed by QUOTED items long enough to pass the print width: the printed value is
            # not wrapped after the multi-line item (a continuation backslash there would not be read as one)
            ["strings", None, ["list", [["str", "first line\nsecond line"], ["str", "a second item that is long enough to pass the print width all by itself, blanks and all, really"],
                                        ["str", "and a third item that is long as well, with more blanks"], ["str", "x y"]]], "dom"],
            # regression cases
            ["strings", None, ["list", []], "dom"],
            ["str", None, ["str", "None"], "dom"],
            ["str", None, ["str", ""], "dom"],
            ["str", None, ["str", "a\\\"b\n'"], "dom"],
            ["qstr", None, ["str", "a  b"], "any"],
            ["qstr", None, ["str", "\"x"], "any"],
            ["int", None, ["int", str(-10 ** 40)], "dom"],
            ["int", None, ["bool", True], "ill"],
            ["int", None, ["float", (2.7).hex()], "ill"],
            ["ints13", None, ["list", [["int", "0"], ["int", "99"], ["int", "5"]]], "dom"],
            ["choice", False, ["none"], "ood"],
            ["choice", True, ["none"], "dom"],
            ["choicem", None, ["list", [["str", "c"], ["str", "a"]]], "order"],
            ["choicem", False, ["list", []], "ood"],
            ["choicem", None, ["none"], "ill"],
            # alternatives quoted in the master keep their quotes when written (seeded change C09/m2)
            ["choiceq", None, ["str", "very slow"], "dom"],
            ["choiceq", None, ["str", "fast"], "dom"],
            ["choicemq", None, ["list", [["str", "semi bold"], ["str", "extra bold"]]], "dom"],
            ["choicemq", None, ["list", []], "dom"],
            ["choicep", None, ["str", "sites+adp"], "dom"],
            ["choicep", None, ["str", "sites+adp+occ"], "dom"],
            ["choicemp", None, ["list", [["str", "x+y"], ["str", "x+y+z"]]], "dom"],
            ["choicemp", None, ["list", [["str", "x+y+z"]]], "dom"],
            ["words", None, ["words", [["a b", "2"], ["c", "n"]]], "dom"],
            ["words", None, ["list", []], "ill"],
        ]

    def cases(self, rng, tier):
        n = 4500 if tier == "quick" else 45000
        keys = list(MODELLED_TYPES)
        for i in range(n):
            tk = keys[i % len(keys)]
            opt = rng.choice([None, None, True, False]) if tk.startswith("choice") else None
            r = rng.random()
            if r < 0.78:
                yield [tk, opt, in_domain_value(rng, tk, opt), "dom"]
            elif r < 0.90:
                v, kind = out_of_domain_value(rng, tk)
                if v is None:
                    yield [tk, opt, in_domain_value(rng, tk, opt), "dom"]
                elif kind is not None:
                    yield [tk, opt, v, "excluded:" + kind]       # recorded defect, outside the domain
                else:
                    yield [tk, opt, v, "ood"]
            else:
                yield [tk, opt, rng.choice(ILL_TYPED), "ill"]
        # exhaustive small strings for the text types
        alpha = ["'", '"', "\\", "\n", " ", "a", "$"]
        import itertools
        maxlen = 2 if tier == "quick" else 3
        for tk in ("str", "path", "key", "qstr"):
            for k in range(maxlen + 1):
                for t in itertools.product(alpha, repeat=k):
                    s = "".join(t)
                    yield [tk, None, ["str", s], "dom" if tk != "qstr" else "any"]

    # -- implementation
    def master(self, tk, opt, route=0):
        """route 0: the parsed master; 1: a deep copy of it; 2: a pickle round trip (what a GUI or a job file hands on) -
        the declared type with all its constructor arguments is the same master"""
        k = (tk, opt, route)
        if k not in self.masters:
            m = self.fp.parse(master_text(tk, opt))
            if route == 1:
                import copy
                m = copy.deepcopy(m)
            elif route == 2:
                import pickle
                m = pickle.loads(pickle.dumps(m))
            self.masters[k] = m
        return self.masters[k]

    @staticmethod
    def route(case):
        return len(json.dumps(case)) % 3

    def impl(self, case):
        tk, opt, vs, _ = case
        root = self.master(tk, opt, self.route(case))
        d = root.objects[0]
        v = self.cd.from_json(vs)
        self.orc.reset()
        key = json.dumps(case)
        try:
            f = d.format(v)
        except vlib.Timeout:
            raise
        except (Exception, SystemExit) as e:  # noqa
            self.side[key] = (None, self.orc.tables(), None)
            return [err_obs(e), [], []]
        if not all(isinstance(w.value, str) for w in f.words):
            # an ill-typed value put into a word as it is: nothing the value model can express
            self.side[key] = (None, self.orc.tables(), None)
            return [["ok", "word-with-non-str-value"], [], []]
        fo = ["ok", tree_obs(f)]
        try:
            x = f.extract()
            xo = ["ok", nowords_lines(self.cd.dump(x))]
        except vlib.Timeout:
            raise
        except (Exception, SystemExit) as e:  # noqa
            xo = err_obs(e)
        # text route (oracle only): print at attributes level 3, parse, fetch against the master, extract
        try:
            doc = self.fp.parse(f.as_str(attributes_level=3))
            y = getattr(root.fetch(source=doc).extract(), "a")
            to = ["ok", nowords_lines(self.cd.dump(y))]
        except vlib.Timeout:
            raise
        except (Exception, SystemExit) as e:  # noqa
            to = err_obs(e)
        self.side[key] = (canon(obj_sx(f)), self.orc.tables(), None)
        return [fo, xo, to]

    # -- model
    def requests(self, case, o):
        tk, opt, vs, _ = case
        d = self.master(tk, opt).objects[0]
        v = self.cd.from_json(vs)
        reqs = [("format", [obj_sx(d), self.cd.wire(v)])]
        s = self.side.get(json.dumps(case))
        if s and s[0] is not None:
            reqs.append(("extract", [s[0], s[1]]))
        return reqs

    def model(self, case, replies, o):
        fm = model_res(replies[0], model_tree)
        if fm == "UNMODELLED":
            return fm
        if len(replies) == 1:
            return [fm, [], []]
        xm = model_res(replies[1], nowords_lines)
        if xm == "UNMODELLED":
            return xm
        return [fm, xm, o[2]]

    # -- the property on the implementation
    def expected(self, case):
        """the value that must come back (canonical), or None if the value is outside the type's domain"""
        tk, opt, vs, tag = case
        v = self.cd.from_json(vs)
        return nowords_lines(self.cd.dump(v))

    def finding_kind(self, case):
        tk, opt, vs, tag = case
        if tk == "path" and vs[0] == "str" and vs[1].startswith("~"):
            return "path-tilde"
        if tk == "intsna" and vs[0] == "list" and len(vs[1]) == 1 and vs[1][0][0] in ("none", "auto"):
            return "single-none-element"
        return None

    def prop(self, case, o):
        tk, opt, vs, tag = case
        kind = self.finding_kind(case)
        pre = "[%s] " % kind if kind else ""
        fo, xo, to = o
        if tag == "ood":
            # formatting must refuse instead of writing text that does not read back
            if fo[0] == "ok":
                return pre + "format wrote %r for the out-of-domain value %r" % ([w[0] for w in fo[1][2]], vs)
            if fo[1] != "RuntimeError":
                return pre + "format raised %s for the out-of-domain value %r" % (fo[1], vs)
            return None
        if tag == "ill":
            return None                       # values of another Python type: not claimed either way
        if fo[0] != "ok":
            return pre + "format refused the in-domain value %r: %r" % (vs, fo)
        want = self.expected(case)
        if tk in MULTI_CHOICE and want[0] == "list":
            want = ["list"] + [x for x in [["str", c] for c in CHOICE_ALTS[tk]] if x in want[1:]]     # selected names, master order
        wit = tag.split(":", 1)[1] if tag.startswith("witness:") else None
        tkind = text_kind(fo[1])
        for what, got in (("format+extract", xo), ("format+print+parse+fetch+extract", to)):
            if what.startswith("format+print"):
                if has_dollar(vs):
                    continue                  # '$' is live inside double quotes by design
                if tkind and wit != tkind:
                    continue                  # recorded defects of the printed form (empty-list-text, multiline-before-more)
                if tkind:
                    pre = "[%s] " % tkind
            if got[0] != "ok":
                return pre + "%s failed for %r: %r" % (what, vs, got)
            if got[1] != want:
                return pre + "%s returned %r for %r" % (what, got[1], want)
        return None

    def in_domain(self, case):
        tag = case[3]
        if tag.startswith("witness:"):
            return tag.split(":", 1)[1] in self.open
        if tag.startswith("excluded:") or tag in ("ill", "any", "order"):
            return False
        if self.finding_kind(case) is not None:
            return False                      # recorded defects: path-tilde, single-none-element
        return True

    def key(self, case, o):
        return json.dumps(case[:3])

    def tag(self, case, o):
        return "%s:%s:%s" % (case[0], case[3].split(":")[0], o[0][0] if o and isinstance(o[0], list) else "?")

    def shrink(self, case):
        tk, opt, vs, tag = case
        if vs[0] == "str":
            s = vs[1]
            for i in range(len(s)):
                yield [tk, opt, ["str", s[:i] + s[i + 1:]], tag]
        if vs[0] in ("list", "words"):
            for i in range(len(vs[1])):
                yield [tk, opt, [vs[0], vs[1][:i] + vs[1][i + 1:]], tag]

    def neighbours(self, case, rng):
        yield from self.shrink(case)
        tk, opt, vs, tag = case
        for _ in range(100):
            yield [tk, opt, in_domain_value(rng, tk, opt), "dom"]


def text_kind(tree):
    """defect class that makes the printed form of a formatted tree unreadable (None if readable):
    a definition without words prints as 'a =' (empty-list-text); a word containing a newline followed by
    another word ends the value at the line break (multiline-before-more)"""
    kind, h, body, at = tree
    if kind == "def":
        if len(body) == 0:
            return "empty-list-text"
        # (quoted words may follow a word that spans lines; a bare word after it cannot be written)
        if any("\n" in w[0] and any(x[1] == "n" for x in body[i + 1:]) for i, w in enumerate(body[:-1])):
            return "multiline-before-more"
        return None
    for k in body:
        r = text_kind(k)
        if r:
            return r
    return None


def has_dollar(vs):
    return "$" in json.dumps(vs)


# ----------------------------------------------------------------------------- floats (Conv.v directly)
class FloatRoundTrip(Stream):
    """case = [type text, value spec]; as_words then from_words of float / floats converters."""
    name = "float_roundtrip"
    cluster = "Conv"

    TYPES = ["float", "float(value_min=0)", "float(allow_none=False)", "floats", "floats(size=2)", "floats(size_max=3, value_min=-1e301)",
             "floats(allow_none_elements=True)"]

    def __init__(self, ctx):
        super().__init__(ctx)
        self.fp = import_freephil()
        self.cd = Codec(self.fp)
        self.orc = oracles(self.fp)
        self.masters = {}
        self.side = {}

    def corpus(self):
        return [["float", ["float", (-0.0).hex()]], ["float", ["float", "inf"]], ["float", ["float", (1 / 3).hex()]],
                ["floats(size=2)", ["list", [["float", (1e300).hex()], ["float", (1e-300).hex()]]]],
                ["float(value_min=0)", ["float", (-1.0).hex()]], ["float", ["int", "3"]], ["float", ["float", "nan"]]]

    def cases(self, rng, tier):
        n = 1500 if tier == "quick" else 15000
        for i in range(n):
            ty = self.TYPES[i % len(self.TYPES)]
            r = rng.random()
            if r < 0.5:
                x = rng.choice(FLOAT_POOL)
            elif r < 0.8:
                x = (rng.uniform(-1, 1) * 10 ** rng.randint(-300, 300)).hex()
            else:
                x = float(rng.randint(-10 ** 12, 10 ** 12) / 10 ** rng.randint(0, 12)).hex()
            if ty.startswith("floats"):
                k = rng.randint(0, 3)
                l = [["float", x]] + [["float", rng.choice(FLOAT_POOL)] for _ in range(k)]
                if "none_elements" in ty and rng.random() < 0.3:
                    l.append(["none"])
                yield [ty, ["list", l[:rng.randint(0, len(l))] if rng.random() < 0.2 else l]]
            else:
                yield [ty, rng.choice([["float", x]] * 8 + [["none"], ["auto"], ["int", str(rng.randint(-5, 5))]])]

    def master(self, ty):
        if ty not in self.masters:
            self.masters[ty] = self.fp.parse("a = None\n.type = %s\n" % ty).objects[0]
        return self.masters[ty]

    def conv_wire(self, t):
        n = type(t).__name__
        optn = lambda v: [] if v is None else [num_sx(v)]   # noqa
        opti = lambda v: [] if v is None else [v]          # noqa
        if n == "float_converters":
            return ["float", optn(t.value_min), optn(t.value_max), bool(t.allow_none)]
        return ["floats", opti(t.size_min), opti(t.size_max), optn(t.value_min), optn(t.value_max),
                bool(t.allow_none_elements), bool(t.allow_auto_elements)]

    def to_conv(self, v):
        if v is None:
            return ["none"]
        if self.cd.is_auto(v):
            return ["auto"]
        if isinstance(v, list):
            return ["list"] + [self.to_conv(x) for x in v]
        return ["num", num_sx(v)]

    def fmt_table(self, v, t):
        out = []
        seq = v if isinstance(v, list) else [v]
        for x in list(seq) + [getattr(t, "value_min", None), getattr(t, "value_max", None)]:
            if type(x) in (int, float, bool):
                try:
                    f = float(x)
                except OverflowError:
                    continue
                out.append([flt_sx(f), "%.10g" % f])
        return out

    def impl(self, case):
        ty, vs = case
        d = self.master(ty)
        v = self.cd.from_json(vs)
        self.orc.reset()
        key = json.dumps(case)
        try:
            f = d.format(v)
        except vlib.Timeout:
            raise
        except (Exception, SystemExit) as e:  # noqa
            self.side[key] = None
            return [err_obs(e)[:3], []]
        words = [[w.value, qcode(w.quote_token), "0"] for w in f.words]
        try:
            x = f.extract()
            xo = ["ok", self.cd.dump(x)]
        except vlib.Timeout:
            raise
        except (Exception, SystemExit) as e:  # noqa
            xo = err_obs(e)[:3]
        self.side[key] = ([[w.value, qcode(w.quote_token), 0] for w in f.words], self.orc.tables()[0])
        return [["ok", words], xo]

    def requests(self, case, o):
        ty, vs = case
        d = self.master(ty)
        v = self.cd.from_json(vs)
        reqs = [("as_words", [self.conv_wire(d.type), self.to_conv(v), self.fmt_table(v, d.type)])]
        s = self.side.get(json.dumps(case))
        if s:
            reqs.append(("from_words", [self.conv_wire(d.type), s[0], s[1]]))
        return reqs

    def model(self, case, replies, o):
        a = model_res(replies[0])
        if isinstance(a, list) and a[0] == "err":
            a = a[:3]
        if len(replies) == 1:
            return [a, []]
        b = model_res(replies[1], conv_val_obs)
        if isinstance(b, list) and b[0] == "err":
            b = b[:3]
        return [a, b]

    def prop(self, case, o):
        ty, vs = case
        v = self.cd.from_json(vs)
        if o[0][0] != "ok":
            return "format refused %r: %r" % (vs, o[0])
        if o[1][0] != "ok":
            return "extract of the formatted value failed: %r" % (o[1],)
        want = unsigned_zero(self.cd.dump(round10(v)))
        if unsigned_zero(o[1][1]) != want:
            return "read back %r, expected %r (value rounded to 10 significant digits)" % (o[1][1], want)
        return None

    def in_domain(self, case):
        ty, vs = case
        v = self.cd.from_json(vs)
        t = self.master(ty).type
        seq = v if isinstance(v, list) else [v]
        if isinstance(v, list):
            if len(v) == 1 and (v[0] is None or self.cd.is_auto(v[0])):
                return False                  # single-none-element (recorded defect)
            if t.size_min is not None and len(v) < t.size_min or t.size_max is not None and len(v) > t.size_max:
                return False
        elif v is None and not t.allow_none:
            return False
        for x in seq:
            if x is None:
                if isinstance(v, list) and not t.allow_none_elements:
                    return False
                continue
            if self.cd.is_auto(x):
                if isinstance(v, list) and not t.allow_auto_elements:
                    return False
                continue
            if x != x:
                return False
            y = round10(float(x))
            if t.value_min is not None and not (x >= t.value_min and y >= t.value_min):
                return False                  # out of bounds (refused since b77ba3d), or rounding across a bound
            if t.value_max is not None and not (x <= t.value_max and y <= t.value_max):
                return False
        return True

    def key(self, case, o):
        return json.dumps(case)

    def tag(self, case, o):
        return case[0].split("(")[0] + ":" + (o[0][0] if o[0][0] == "ok" else o[0][2])


def unsigned_zero(x):
    """values are compared with Python's == : -0.0 == 0.0 (the sign of a zero is lost: "%.10g" prints -0, which int() reads)"""
    if x == ["num", ["nz"]]:
        return ["num", ["f", "0", "0"]]
    if isinstance(x, list) and x and x[0] == "list":
        return ["list"] + [unsigned_zero(y) for y in x[1:]]
    return x


def round10(v):
    """the value a float (or list of floats) has after printing with 10 significant digits"""
    if isinstance(v, list):
        return [round10(x) for x in v]
    if type(v) in (int, float) and type(v) is not bool:
        return float("%.10g" % float(v))
    return v


def conv_val_obs(v):
    """reply form of Conv.pyv -> canonical pyval wire form"""
    k = v[0]
    if k in ("none", "auto"):
        return [k]
    if k == "num":
        return ["num", v[1]]
    if k == "list":
        return ["list"] + [conv_val_obs(x) for x in v[1:]]
    return ["bad", v]


# ----------------------------------------------------------------------------- master grammar (shared with c18)
# node = ["d", name, type key, optional, multiple, disabled, default text or None]
#      | ["s", name, optional, multiple, disabled, [nodes]]
NAMES = ["a", "b", "c", "s", "t"]


EDGE_NAMES = ["__x", "_x", "x__", "__phil_x"]      # legal, non-reserved identifiers (reserved: >= 5 chars, starts AND ends with __)


def gen_master(rng, depth=0, multiples=True, wf=True, types=None, split=False):
    """split: a non-multiple scope may be written in two blocks of the same name holding different parameters
    (the second block directly after the first or at the end of the enclosing scope); names then also come from
    the identifier edge set"""
    types = types or MODELLED_TYPES
    out = []
    later = []
    used = []
    for _ in range(rng.randint(1, 4 if depth == 0 else 3)):
        name = rng.choice(EDGE_NAMES) if split and rng.random() < 0.3 else rng.choice(NAMES)
        if wf and name in used:
            continue
        used.append(name)
        mult = multiples and rng.random() < 0.3
        opt = rng.choice([None, None, True, False])
        dis = (not wf) and rng.random() < 0.1
        if rng.random() < (0.5 if split else 0.65) or depth >= 2:
            out.append(["d", name, rng.choice(types), opt, mult, dis, None])
        else:
            kids = gen_master(rng, depth + 1, multiples, wf, types, split)
            if split and not mult and len(kids) >= 2 and rng.random() < 0.7:
                cut = rng.randint(1, len(kids) - 1)
                out.append(["s", name, opt, mult, dis, kids[:cut]])
                (out if rng.random() < 0.5 else later).append(["s", name, opt, mult, dis, kids[cut:]])
            else:
                out.append(["s", name, opt, mult, dis, kids])
    return out + later


def render_master(nodes, ind=""):
    lines = []
    for n in nodes:
        if n[0] == "d":
            _, name, tk, opt, mult, dis, dflt = n
            ty, d0 = TYPES[tk]
            lines.append("%s%s%s = %s" % (ind, "!" if dis else "", name, dflt if dflt is not None else d0))
            if ty is not None:
                lines.append("%s  .type = %s" % (ind, ty))
            if opt is not None:
                lines.append("%s  .optional = %s" % (ind, opt))
            if mult:
                lines.append("%s  .multiple = True" % ind)
        else:
            _, name, opt, mult, dis, kids = n
            lines.append("%s%s%s" % (ind, "!" if dis else "", name))
            if opt is not None:
                lines.append("%s  .optional = %s" % (ind, opt))
            if mult:
                lines.append("%s  .multiple = True" % ind)
            lines.append("%s{" % ind)
            lines.extend(render_master(kids, ind + "  "))
            lines.append("%s}" % ind)
    return lines


SRC_TEXTS = {
    "none": ["p q", "'x y' z", "None", "Auto", "1"],
    "words": ["u 'v w'", "\"a\\\"b\"", "None", "x"],
    "strings": ["m n", "\"o p\"", "None", "k"],
    "str": ["one two", "\"q r\"", "None", "Auto", "'a\\'b'"],
    "qstr": ["x 'y z'", "None", "\"p\""],
    "path": ["/a/b", "rel/c", "None"],
    "key": ["k2", "None", "a.b"],
    "bool": ["False", "yes", "None", "Auto", "0"],
    "int": ["7", "-3", "None", "Auto", "4/2", "12345678901234567890"],
    "int09": ["0", "9", "5", "None"],
    "intnn": ["5", "-8", "Auto"],
    "ints": ["4 5 6", "None", "7", "1,2", "[3;4]"],
    "ints2": ["8 9", "None", "0 -1"],
    "ints13": ["2", "3 4", "5 6 7", "None"],
    "intsna": ["1 None 2", "Auto 3", "None", "4"],
    "choice": ["b", "*c", "a", "None", "Auto"],
    "choicem": ["b", "a+c", "*a *b", "None", "a b c", "Auto"],
    "choiceq": ["off", '"very slow"', "*fast", "None", 'fast "*very slow" off'],
    "choicemq": ['"semi bold"', '*plain "*extra bold"', "None", 'plain "*semi bold" "extra bold"', "Auto"],
    "choicep": ["*sites", "sites *sites+adp sites+adp+occ none_", "sites sites+adp *sites+adp+occ none_", "*none_", "None"],
    "choicemp": ["*x+y *z", "x+y *z *x+y+z", "*x+y+z", "None", "z"],
    "float": ["2.5", "1e3", "None", "1/3"],
    "floats": ["0.5 1e-3", "None", "7"],
}


def gen_source(rng, nodes, ind=""):
    """source text addressing some parameters of the master (instances repeated for multiples)"""
    lines = []
    for n in nodes:
        if rng.random() < 0.45:
            continue
        reps = rng.randint(1, 3) if n[4 if n[0] == "d" else 3] else 1
        for _ in range(reps):
            if n[0] == "d":
                tk = n[2]
                txt = rng.choice(SRC_TEXTS[tk])
                if tk in SINGLE_CHOICE + MULTI_CHOICE and n[3] is False and txt == "None":
                    txt = '"%s"' % CHOICE_ALTS[tk][1]
                if tk == "intnn" and txt == "None":
                    txt = "1"
                lines.append("%s%s = %s" % (ind, n[1], txt))
            else:
                lines.append("%s%s {" % (ind, n[1]))
                lines.extend(gen_source(rng, n[5], ind + "  "))
                lines.append("%s}" % ind)
    return lines


def has_multiple(nodes):
    return any(n[4 if n[0] == "d" else 3] or (n[0] == "s" and has_multiple(n[5])) for n in nodes)


def has_type(nodes, tks):
    return any((n[0] == "d" and n[2] in tks) or (n[0] == "s" and has_type(n[5], tks)) for n in nodes)


def gen_mutations(rng, nodes, path=()):
    """assignments [path, value spec] of in-domain values to parameters of an extracted object; a path element that
    is an int indexes into the list of a multiple parameter ('*' = every instance present)"""
    muts = []
    for n in nodes:
        if n[0] == "d":
            _, name, tk, opt, mult, dis, _ = n
            if dis or rng.random() < 0.5:
                continue
            if mult:
                k = rng.randint(0, 3)
                vals = [in_domain_value(rng, tk, opt) for _ in range(k)]
                vals = [v for v in vals if not (v == ["none"] and opt is True)]
                muts.append([list(path) + [name], ["mlist", vals]])
            else:
                muts.append([list(path) + [name], in_domain_value(rng, tk, opt)])
        else:
            _, name, opt, mult, dis, kids = n
            if dis:
                continue
            if mult:
                r = rng.random()
                if r < 0.2:
                    muts.append([list(path) + [name], ["mdel", rng.randint(0, 2)]])
                elif r < 0.4:
                    muts.append([list(path) + [name], ["mdup", rng.randint(0, 2)]])
                muts.extend(gen_mutations(rng, kids, tuple(path) + (name, "*")))
            else:
                muts.extend(gen_mutations(rng, kids, tuple(path) + (name,)))
    return muts


class ScopeRoundTrip(Stream):
    """case = {"m": master nodes, "src": source text, "mut": mutations, "kind": "nomult"|"mult"|"loose"}"""
    name = "scope_roundtrip"
    cluster = "Extract"

    def __init__(self, ctx):
        super().__init__(ctx)
        self.fp = import_freephil()
        self.cd = Codec(self.fp)
        self.orc = oracles(self.fp)
        self.side = {}
        self.open = open_kinds()

    def corpus(self):
        d = lambda name, tk, opt=None, mult=False, dis=False, dflt=None: ["d", name, tk, opt, mult, dis, dflt]   # noqa
        s = lambda name, kids, opt=None, mult=False, dis=False: ["s", name, opt, mult, dis, kids]                # noqa
        return [
            # witness of a recorded defect (in the property's domain only while listed open in known_findings.json)
            {"m": [s("s", [d("b", "int")], mult=True)], "src": "s { b = 2 }\n", "mut": [], "kind": "mult", "witness": "clone-template"},
            # repaired in 51dc715: a disabled object must not disturb the value of its active namesakes (both orders: [1])
            {"m": [s("c", [d("a", "int", mult=True), d("a", "str", dis=True, dflt="x")])], "src": "", "mut": [], "kind": "regress", "direct": True,
             "expect": ["scope", "", [["c", ["scope", "c", [["a", ["slist", ["none"], ["num", ["i", "1"]]]]]]]]]},
            {"m": [s("c", [d("a", "str", dis=True, dflt="x"), d("a", "int", mult=True)])], "src": "", "mut": [], "kind": "regress", "direct": True,
             "expect": ["scope", "", [["c", ["scope", "c", [["a", ["slist", ["none"], ["num", ["i", "1"]]]]]]]]]},
            # a non-multiple scope written in two blocks; a later block declares a name that starts with two underscores
            {"m": [s("s", [d("a", "int")]), s("t", [s("s", [d("b", "str")]), s("s", [d("__x", "int")])], mult=True),
                   s("s", [d("__x", "int"), d("x__", "key")])], "src": "s.__x = 5\nt { s.__x = 7 }\n", "mut": [[["s", "__x"], ["int", "9"]]],
             "kind": "split"},
            # repaired in ceef076: a disabled .multiple object after an active non-multiple namesake holding None leaves it None
            {"m": [d("c", "path", dflt="None"), d("c", "none", mult=True, dis=True, dflt="x")], "src": "", "mut": [], "kind": "regress",
             "direct": True, "expect": ["scope", "", [["c", ["none"]]]]},
            {"m": [s("s", [d("c", "path", dflt="None"), d("c", "strings", mult=True, dis=True, dflt="Auto")], mult=True, opt=True)],
             "src": "s { c = /a/b }\ns { }\n", "mut": [], "kind": "regress"},
            # repaired in 3d13dfd (formerly C16-join-disabled): the placeholder of a disabled object in a LATER block of a scope
            # leaves the scope / the .multiple list of the earlier block alone
            {"m": [s("s", [s("t", [d("a", "none", dflt="1")])]), s("s", [s("t", [d("b", "none", dflt="2")], dis=True)])],
             "src": "", "mut": [], "kind": "regress", "direct": True,
             "expect": ["scope", "", [["s", ["scope", "s", [["t", ["scope", "t", [["a", ["list", ["str", "1"]]]]]]]]]]]},
            {"m": [s("s", [s("t", [d("a", "none", dflt="1")])]), s("s", [d("t", "none", dis=True, dflt="3")])],
             "src": "", "mut": [], "kind": "regress", "direct": True,
             "expect": ["scope", "", [["s", ["scope", "s", [["t", ["scope", "t", [["a", ["list", ["str", "1"]]]]]]]]]]]},
            {"m": [s("s", [d("m", "int", mult=True, dflt="1")]), s("s", [d("m", "int", dis=True, dflt="2")])],
             "src": "", "mut": [], "kind": "regress", "direct": True,
             "expect": ["scope", "", [["s", ["scope", "s", [["m", ["slist", ["none"], ["num", ["i", "1"]]]]]]]]]},
            {"m": [d("a", "int"), s("s", [d("b", "str"), d("c", "choicem")])], "src": "a = 5\ns.b = x y\n", "mut": [[["s", "b"], ["str", "q\"r"]]], "kind": "nomult"},
            # text route with a strings value whose first item spans lines and whose further (quoted) items pass the print width
            {"m": [d("a", "int"), s("s", [d("t", "strings")])], "src": "", "kind": "nomult",
             "mut": [[["s", "t"], ["list", [["str", "first line\nsecond line"], ["str", "a second item that is long enough to pass the print width all by itself, blanks and all, really"],
                                            ["str", "and a third item that is long as well, with more blanks"], ["str", "x y"]]]]]},
            {"m": [d("a", "ints", mult=True), s("s", [d("b", "bool")], mult=True)], "src": "a = 1 2\na = 3\ns { b = False }\ns { b = None }\n",
             "mut": [[["a"], ["mlist", [["list", [["int", "7"]]]]]], [["s"], ["mdup", 0]]], "kind": "mult"},
            {"m": [d("a", "str", mult=True, opt=True), s("s", [d("b", "int", mult=True)], mult=True, opt=True)], "src": "", "mut": [], "kind": "mult"},
            {"m": [s("s", [d("a", "int")]), s("s", [d("b", "int")]), d("t", "int"), d("t", "str")], "src": "", "mut": [], "kind": "loose"},
            {"m": [d("a", "int", dis=True), s("s", [d("b", "int")], dis=True), d("c", "key")], "src": "c = z\n", "mut": [], "kind": "loose"},
        ]

    def cases(self, rng, tier):
        n = 1000 if tier == "quick" else 9000
        for i in range(n):
            r = i % 10
            if r < 3:
                kind, nodes = "nomult", gen_master(rng, multiples=False)
            elif r < 6:
                kind, nodes = "mult", gen_master(rng, multiples=True)
            elif r < 8:
                kind, nodes = "split", gen_master(rng, multiples=(i % 20 >= 10), split=True)
            elif r < 9:
                kind, nodes = "loose", gen_master(rng, multiples=True, wf=False)
            else:
                kind, nodes = "float", gen_master(rng, multiples=False, types=MODELLED_TYPES + ["float", "floats"] * 4)
            src = "\n".join(gen_source(rng, nodes)) + "\n"
            mut = gen_mutations(rng, nodes) if rng.random() < 0.7 else []
            yield {"m": nodes, "src": src, "mut": mut, "kind": kind}

    # -- implementation
    def apply_mutations(self, p, muts):
        for path, vs in muts:
            targets = [p]
            for el in path[:-1]:
                nxt = []
                for t in targets:
                    # ill-formed ("loose") masters may hold something else under the name than the node says: skipped
                    if el == "*":
                        if isinstance(t, list):
                            nxt.extend(x for x in t if isinstance(x, self.cd.SE))
                    elif isinstance(t, self.cd.SE):
                        x = getattr(t, el, None)
                        if x is not None:
                            nxt.append(x)
                targets = nxt
            last = path[-1]
            for t in targets:
                if not isinstance(t, self.cd.SE) or not hasattr(t, last):
                    continue
                if vs[0] in ("mlist", "mdel", "mdup") and not isinstance(getattr(t, last), list):
                    continue
                if vs[0] == "mlist":
                    lst = getattr(t, last)
                    del lst[:]
                    lst.extend(self.cd.from_json(v) for v in vs[1])
                elif vs[0] == "mdel":
                    lst = getattr(t, last)
                    if len(lst) > vs[1]:
                        del lst[vs[1]]
                elif vs[0] == "mdup":
                    lst = getattr(t, last)
                    if len(lst) > vs[1]:
                        lst.append(copy.deepcopy(lst[vs[1]]))
                else:
                    setattr(t, last, self.cd.from_json(vs))

    @staticmethod
    def auto_choice(sc):
        """a choice definition whose value is Auto has lost its alternatives: such a fetch result is not a complete master"""
        for o in sc.objects:
            if o.is_scope:
                if ScopeRoundTrip.auto_choice(o):
                    return True
            elif getattr(o.type, "phil_type", None) == "choice" and len(o.words) == 1 and o.words[0].quote_token is None \
                    and o.words[0].value.lower() == "auto":
                return True
        return False

    def run(self, f, conv):
        try:
            return ["ok", conv(f())]
        except vlib.Timeout:
            raise
        except (Exception, SystemExit) as e:  # noqa
            return err_obs(e)

    def impl(self, case):
        import parse_common as pc
        key = json.dumps(case, sort_keys=True)
        self.orc.reset()
        try:
            m = self.fp.parse("\n".join(render_master(case["m"])) + "\n")
            w = m if case.get("direct") else m.fetch(source=self.fp.parse(case["src"]))
        except vlib.Timeout:
            raise
        except (Exception, SystemExit) as e:  # noqa
            self.side[key] = None
            return ["fetch-error", exc_class(e)]
        side = {"m": obj_sx(m), "w": obj_sx(w)}
        dump = lambda x: nowords_lines(self.cd.dump(x))   # noqa
        po = self.run(lambda: w.extract(), dump)
        side["o1"] = self.orc.tables()
        obs = {"p": po}
        if po[0] == "ok":
            p = w.extract()
            self.apply_mutations(p, case["mut"])
            side["p2"] = self.cd.wire(p)
            obs["p2"] = dump(p)
            holder = {}

            def fmt():
                holder["f"] = m.format(p)
                return holder["f"]
            obs["f"] = self.run(fmt, lambda t: tree_obs(t) if all_words_str(t) else "word-with-non-str-value")
            if obs["f"] == ["ok", "word-with-non-str-value"]:
                side.pop("p2")                # nothing the value model can express: no model request
            elif obs["f"][0] == "ok":
                f = holder["f"]
                side["f"] = obj_sx(f)
                self.orc.reset()
                obs["q"] = self.run(lambda: f.extract(), dump)
                side["o2"] = self.orc.tables()
                # clone = parse(format(p).as_str(attributes_level=3)).extract()
                self.orc.reset()
                try:
                    text = f.as_str(attributes_level=3)
                    _, porc = pc.impl_parse(self.fp, text)
                    side["porc"] = porc
                except (Exception, SystemExit):  # noqa
                    side["porc"] = None
                obs["c"] = self.run(lambda: m.clone(p), dump)
                side["o3"] = self.orc.tables()
                # text route (oracle only)
                obs["t"] = self.run(lambda: m.fetch(source=self.fp.parse(f.as_str())).extract(), dump)
                # the "working = master.fetch(...)" idiom (oracle only): the fetch RESULT used as the master of format
                if not case.get("direct") and not self.auto_choice(w):
                    obs["qw"] = self.run(lambda: w.format(p).extract(), dump)
        self.side[key] = side
        return obs

    # -- model
    def requests(self, case, o):
        s = self.side.get(json.dumps(case, sort_keys=True))
        if not s:
            return []
        reqs = [("extract", [s["w"], s["o1"]])]
        if "p2" in s:
            reqs.append(("format", [s["m"], s["p2"]]))
        if "f" in s:
            reqs.append(("extract", [s["f"], s["o2"]]))
            if s.get("porc") is not None:
                reqs.append(("clone", [s["porc"], s["m"], s["p2"], s["o3"]]))
        return reqs

    def model(self, case, replies, o):
        if not replies:
            return o
        if isinstance(o, dict) and o.get("f") == ["ok", "word-with-non-str-value"]:
            return "UNMODELLED"
        out = {}
        r = model_res(replies[0], nowords_lines)
        if r == "UNMODELLED":
            return r
        out["p"] = r
        if len(replies) > 1:
            out["p2"] = o.get("p2")
            r = model_res(replies[1], model_tree)
            if r == "UNMODELLED":
                return r
            out["f"] = r
        if len(replies) > 2:
            r = model_res(replies[2], nowords_lines)
            if r == "UNMODELLED":
                return r
            out["q"] = r
            if len(replies) > 3:
                r = model_res(replies[3], nowords_lines)
                out["c"] = o.get("c") if r == "UNMODELLED" else r
            else:
                out["c"] = o.get("c")
            out["t"] = o.get("t")
            if "qw" in o:
                out["qw"] = o.get("qw")
        return out

    # -- the property on the implementation
    def prop(self, case, o):
        if not isinstance(o, dict):
            return None
        if "expect" in case:
            if o["p"] != ["ok", case["expect"]]:
                return "extraction returned %r, expected %r" % (o["p"], case["expect"])
        if o["p"][0] != "ok":
            return None
        wit = case.get("witness")
        pre = "[%s] " % wit if wit else ""
        if "f" not in o or o["f"][0] != "ok":
            return pre + "format refused an object with in-domain values: %r" % (o.get("f"),)
        want = o["p2"]
        if o["q"][0] != "ok" or o["q"][1] != want:
            return pre + "format+extract returned %r, expected %r" % (o["q"], want)
        # (a refusal is not judged: a fetch result whose choice is Auto / None-ed out is no longer a complete master)
        if "qw" in o and not wit and o["qw"][0] == "ok" and o["qw"][1] != want:
            return pre + "working.format(p).extract() (working = master.fetch(source)) returned %r, expected %r" % (o["qw"], want)
        tkind = text_kind(o["f"][1])
        if tkind and wit != tkind:
            return None                       # recorded defects of the printed form
        if case["kind"] in ("nomult", "float") or wit == "clone-template":
            # with .multiple, clone turns the printed templates into instances (clone-template, recorded defect)
            if o["c"][0] != "ok" or o["c"][1] != want:
                return pre + "clone returned %r, expected %r" % (o["c"], want)
        if case["kind"] in ("nomult", "float") and "$" not in json.dumps(case["mut"]):
            if o["t"][0] != "ok" or o["t"][1] != want:
                return pre + "format+print+parse+fetch+extract returned %r, expected %r" % (o["t"], want)
        return None

    def in_domain(self, case):
        # the claim is for well-formed masters (unique sibling names, nothing disabled) ; float types inside trees are
        # checked on the implementation only ; masters with .multiple: object route only
        if case.get("witness"):
            return case["witness"] in self.open
        return case["kind"] in ("nomult", "mult", "float", "regress", "split")

    def key(self, case, o):
        return json.dumps([case["m"], case["src"], case["mut"]]) if isinstance(o, dict) else None

    def tag(self, case, o):
        if not isinstance(o, dict):
            return case["kind"] + ":fetch-error"
        return case["kind"] + ":" + ("mut" if case["mut"] else "plain") + ":" + (o.get("f", ["nofmt"])[0])

    def shrink(self, case):
        for i in range(len(case["mut"])):
            yield dict(case, mut=case["mut"][:i] + case["mut"][i + 1:])
        lines = case["src"].split("\n")
        for i in range(len(lines)):
            yield dict(case, src="\n".join(lines[:i] + lines[i + 1:]))
        for i in range(len(case["m"])):
            yield dict(case, m=case["m"][:i] + case["m"][i + 1:])


# ----------------------------------------------------------------------------- findings
def match_finding(finding, failure):
    """A recorded defect is recognised by the bracketed kind that prop() puts in front of its description."""
    kind = finding.get("signature") or finding.get("id")
    return isinstance(failure.get("what"), str) and failure["what"].startswith("[%s] " % kind)


SPEC = {
    "clusters": ["Extract", "Conv"],
    "streams": [ConvRoundTrip, FloatRoundTrip, ScopeRoundTrip],
    "rule": "conv_roundtrip: 17 modelled type instances (no type, words, strings, str, qstr, path, key, bool, int with/without bounds and "
            "allow_none, ints with size/bounds/None-Auto elements, choice, multi choice; .optional None/True/False for choices) x seeded "
            "values: in-domain (strings over a 16-symbol alphabet incl. quotes, backslash, newline, '#{};=', ints to 10^40, lists at the "
            "size bounds, None/Auto), out-of-domain (bounds, sizes, alternatives, None rules) and ill-typed; plus all strings to length 2 "
            "(quick) / 3 (thorough) over {' \" \\\\ \\n blank a $} for str/path/key/qstr. float_roundtrip: 7 float/floats instances x pool "
            "(+-0, 1e+-300, denormal, inf, 1/3, ...) + random magnitudes. scope_roundtrip: seeded masters (depth <= 3, names from 5, 40% "
            "without .multiple, 40% with, 10% ill-formed: duplicate names / disabled, 10% with float types) x sources x in-domain mutations "
            "(values, instance lists replaced, instances deleted / duplicated). distinct = distinct case; every case non-trivial",
    "trusted": ["Oracles: eval(value_string, math.__dict__, {}) and os.path.expanduser - recorded from the implementation's own calls "
                "(names rebound inside module freephil.converters for the run) and supplied to the model as tables; \"%.10g\" % x as a table",
                "Modelled: converters.py words/strings/str/qstr/path/key converters, definition.extract/format, scope.extract with "
                "scope_extract.__phil_set__/__phil_join__, scope.master_active_objects, scope.format, scope.clone (parser + printer models); "
                "bool/int/ints delegated to Conv.v, choice to Choice.v",
                "The parser's own oracles (.type construction) for clone are recorded by parse_common.Recorder"],
    "modelled": "float/floats inside trees are outside the tree model (TyOther -> unmodelled; covered by float_roundtrip on Conv.v); "
                "the text route print -> parse -> fetch -> extract is evaluated on the implementation only (fetch is not in this model)",
    "assumptions": ["text restricted to code points < 256", "parameter names do not collide with attributes of scope_extract "
                    "(dir(scope_extract), compared on every C18 run)", "fields compared in __dict__ order"],
    "match_finding": match_finding,
}
