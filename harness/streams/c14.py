"""C14 - a command-line argument sets the intended parameter or is refused.

Streams (cluster CmdLine):
  strops      str.find / startswith / endswith on all pairs of short strings over {a,b,.}
  score       argument_interpreter.get_path_score, bounded-exhaustive (home, source, target)
  decision    master.command_line_argument_interpreter(home_scope=h).process_arg(arg) on random
              small masters: chosen target path(s) / refusal kind + candidate list / warning
  process_args  the argument pre-processing of process_args (blank, --flag, name=value, other)

The argument text is parsed by the real parser (freephil.parse(arg).all_definitions() gives the
source paths that are sent to the model); the re-rendering under the target path and the final
re-parse are exercised by the property oracle on the implementation only.
"""
import contextlib
import io
import itertools
import json
import os

import vlib
from vlib import Stream, exc_class, import_freephil, qcode

PID = "C14"


# ----------------------------------------------------------------------------- the property, declaratively
def rank(home, name, path):
    """Match kind of parameter `path` for argument name `name` as the property words it.
    None = the name is not a substring.  Tuples compare in the property's preference order:
    equal > home.name > trailing > interior; within trailing: inside home first, then whole
    dotted component; within interior: inside home."""
    if name not in path:
        return None
    if path == name:
        return (3,)
    if home is not None and path == home + "." + name:
        return (2,)
    inside = home is not None and path.startswith(home + ".")
    if path.endswith(name):
        return (1, inside, path.endswith("." + name))
    return (0, inside)


SCORE_OF_RANK = {None: 0, (3,): 8, (2,): 7, (1, True, True): 6, (1, True, False): 5, (1, False, True): 4,
                 (1, False, False): 3, (0, True): 2, (0, False): 1}


def expected_decision(home, name, targets, levels):
    """("chosen", path, warned) | ("unknown",) | ("ambiguous", [candidates]) by the property's text."""
    if name in targets:
        return ("chosen", name, False)  # a full path always addresses that parameter
    ranks = [rank(home, name, t) for t in targets]
    matches = [r for r in ranks if r is not None]
    if not matches:
        return ("unknown",)
    best = max(matches)
    M = [i for i, r in enumerate(ranks) if r == best]
    if len(M) == 1:
        return ("chosen", targets[M[0]], False)
    lv = [levels[i] for i in M]
    if lv.count(min(lv)) == 1:  # a strictly lower expert level alone breaks the tie, with a warning
        return ("chosen", targets[M[lv.index(min(lv))]], True)
    return ("ambiguous", [targets[i] for i in M])


def parameters(master):
    """the master's parameters as the property sees them: distinct dotted paths of the active definitions in
    order of first occurrence, each with the expert level that governs it (its own, else the nearest enclosing
    scope's, else 0; for a path occurring several times - a .multiple parameter - the first occurrence's)"""
    paths, levels = [], []
    for loc in master.all_definitions():
        if loc.path in paths:
            continue
        o = loc.object
        lvl = o.expert_level
        p = o.primary_parent_scope
        while lvl is None and p is not None:
            lvl = p.expert_level
            p = p.primary_parent_scope
        paths.append(loc.path)
        levels.append(0 if lvl is None else lvl)
    return paths, levels


def home_sx(h):
    return [] if h is None else [h]


# ----------------------------------------------------------------------------- strops
SMALL = [""] + ["".join(t) for n in range(1, 5) for t in itertools.product("ab.", repeat=n)]


class StrOps(Stream):
    """The model's find/startswith/endswith against CPython's, all pairs of strings of length <= 3 (quick)
    or <= 4 (thorough) over {a,b,.}."""
    name = "strops"
    cluster = "CmdLine"

    def cases(self, rng, tier):
        u = [s for s in SMALL if len(s) <= (3 if tier == "quick" else 4)]
        for t in u:
            for s in u:
                yield [t, s]

    def impl(self, case):
        t, s = case
        return [str(t.find(s)), "1" if t.startswith(s) else "0", "1" if t.endswith(s) else "0"]

    def requests(self, case, o):
        return [("strops", case)]

    def model(self, case, replies, o):
        return replies[0]

    def key(self, case, o):
        return (case[0], case[1])

    def tag(self, case, o):
        return "found" if o[0] != "-1" else "absent"


# ----------------------------------------------------------------------------- score
def paths_over(comps, maxn):
    out = []
    for n in range(1, maxn + 1):
        for t in itertools.product(comps, repeat=n):
            out.append(".".join(t))
    return out


def score_universe(tier):
    comps = ["a", "b", "ab"] if tier == "quick" else ["a", "b", "ab", "ba"]
    targets = paths_over(comps, 3)
    homes = [None] + paths_over(comps, 2)
    subs = set()
    for t in targets:
        for i in range(len(t) + 1):
            for j in range(i, len(t) + 1):
                subs.add(t[i:j])
    maxlen = 6 if tier == "quick" else 7
    sources = sorted(s for s in subs if len(s) <= maxlen) + ["c", "a.c", "bb", "aa", "a..b", "..", "b.b.b.b"]
    return homes, sorted(set(sources)), targets


class Score(Stream):
    name = "score"
    cluster = "CmdLine"

    def __init__(self, ctx):
        super().__init__(ctx)
        self.fp = import_freephil()
        from freephil.command_line import argument_interpreter
        self.master = self.fp.parse("x = 1")
        self.ai = {}
        self.cls = argument_interpreter

    def interp(self, home):
        if home not in self.ai:
            self.ai[home] = self.cls(master_phil=self.master, home_scope=home)
        return self.ai[home]

    def corpus(self):
        return [[None, "", ""], [None, "", "a"], ["a", "b", "a.b"], ["a", "a.b", "a.b"], ["a", "", "a."], ["a", ".b", "a.b"],
                ["a", "b", "a.ab"], ["a", "b", "a.b.a"], ["a", "b", "ab.b"], [None, "b", "a.b"], ["a.b", "b", "a.b.b"],
                ["a", "a", "a.a"], ["", "a", ".a"], ["a", "a.a", "a.a.a"]]

    def cases(self, rng, tier):
        homes, sources, targets = score_universe(tier)
        for h in homes:
            for s in sources:
                for t in targets:
                    yield [h, s, t]

    def impl(self, case):
        h, s, t = case
        try:
            return str(self.interp(h).get_path_score(s, t))
        except Exception as e:  # noqa
            return "err:" + exc_class(e)

    def requests(self, case, o):
        h, s, t = case
        return [("score", [home_sx(h), s, t])]

    def model(self, case, replies, o):
        return replies[0]

    def prop(self, case, o):
        h, s, t = case
        want = SCORE_OF_RANK[rank(h, s, t)]
        if o != str(want):
            return "get_path_score(home=%r, %r, %r) = %s, the property's ranking puts it in class %d" % (h, s, t, o, want)
        return None

    def key(self, case, o):
        return tuple(case)

    def tag(self, case, o):
        return "score" + o

    def shrink(self, case):
        h, s, t = case
        if h is not None:
            yield [None, s, t]
            for i in range(len(h)):
                yield [h[:i] + h[i + 1:], s, t]
        for i in range(len(s)):
            yield [h, s[:i] + s[i + 1:], t]
        for i in range(len(t)):
            yield [h, s, t[:i] + t[i + 1:]]

    def neighbours(self, case, rng):
        h, s, t = case
        yield from self.shrink(case)
        for c in "ab.":
            for i in range(len(t) + 1):
                yield [h, s, t[:i] + c + t[i:]]
            for i in range(len(s) + 1):
                yield [h, s[:i] + c + s[i:], t]


# ----------------------------------------------------------------------------- decision
NAMES = ["a", "b", "ab", "ba", "AB", "Ba"]     # names differing only in letter case are different names
VALUES = ["1", "'x y'", '"a=b"', "x = y", '"p;q"', "1 2", "\"it's\"", "None", "*a b", "  3  ", "'' \"\"", "a.b", "\"{\" '}'", "1;"]


def render(spec, ind=""):
    """master spec -> PHIL text.  object = ["d", name, disabled, level, multiple]
    | ["s", name, disabled, level, [objects]] | ["i", word]  (an include definition)"""
    out = []
    for o in spec:
        if o[0] == "d":
            out.append("%s%s%s = 1" % (ind, "!" if o[2] else "", o[1]))
            if o[3] is not None:
                out.append("%s  .expert_level = %d" % (ind, o[3]))
            if o[4]:
                out.append("%s  .multiple = True" % ind)
        elif o[0] == "i":
            out.append("%sinclude %s" % (ind, o[1]))
        else:
            out.append("%s%s%s" % (ind, "!" if o[2] else "", o[1]))
            if o[3] is not None:
                out.append("%s  .expert_level = %d" % (ind, o[3]))
            out.append("%s{" % ind)
            out.append(render(o[4], ind + "  "))
            out.append("%s}" % ind)
    return "\n".join(x for x in out if x != "")


def gen_level(rng, big=False):
    r = rng.random()
    if big:  # masters whose levels are 100 or more apart: a worse match must still not win the tie-break
        return None if r < 0.35 else rng.choice([0, 100, 200, 200, 300])
    if r < 0.55:
        return None
    if r < 0.97:
        return rng.choice([0, 1, 1, 2, 3])
    return rng.choice([100, 150, 250, -1, 99, 200, 2 ** 41])


def gen_objs(rng, depth, budget, big=False):
    n = rng.randint(1, 3)
    out = []
    for _ in range(n):
        if budget[0] <= 0:
            break
        r = rng.random()
        if r < 0.6 or depth >= 2:
            budget[0] -= 1
            name = rng.choice(NAMES)
            if rng.random() < 0.12:
                name = rng.choice(NAMES) + "." + name
            d = ["d", name, rng.random() < 0.08, gen_level(rng, big), False]
            if rng.random() < 0.06:
                d[4] = True
                out.append(list(d))
            out.append(d)
        elif r < 0.62:
            out.append(["i", "f.phil"])
        else:
            out.append(["s", rng.choice(NAMES), rng.random() < 0.06, gen_level(rng, big), gen_objs(rng, depth + 1, budget, big)])
    return out


def gen_pathset(rng, big=False):
    comps = ["a", "b", "ab", "AB", "Ab"]
    k = rng.randint(2, 4)
    ps = []
    for _ in range(k):
        ps.append(".".join(rng.choice(comps) for _ in range(rng.randint(1, 3))))
    if big:
        return [["d", p, False, rng.choice([0, 200, 200, 300]), False] for p in ps]
    lv = rng.random() < 0.3
    return [["d", p, False, (rng.choice([0, 1, 2]) if lv else None), False] for p in ps]


def arg_names(rng, targets, scopes):
    """argument names: full paths, suffixes, interior substrings, non-substrings (identifier-shaped)"""
    cand = set()
    for t in targets:
        cand.add(t)
        comps = t.split(".")
        for i in range(len(comps)):
            cand.add(".".join(comps[i:]))
            for j in range(i + 1, len(comps) + 1):
                cand.add(".".join(comps[i:j]))
        for i in range(len(t)):
            for j in range(i + 1, len(t) + 1):
                s = t[i:j].strip(".")
                if s and ".." not in s:
                    cand.add(s)
    cand.update(scopes)
    # the same names in another letter case: different names (mostly matching nothing)
    for c in sorted(cand)[:12]:
        for v in (c.upper(), c.lower(), c.swapcase()):
            if v != c:
                cand.add(v)
    return sorted(cand)


NON_MATCHING = ["c", "a.c", "bb", "aa", "b.a.b.a", "a.b.c", "A", "B.a", "aB"]


class Decision(Stream):
    name = "decision"
    cluster = "CmdLine"
    impl_timeout = 10.0

    def __init__(self, ctx):
        super().__init__(ctx)
        self.fp = import_freephil()
        self._m = {}

    # ---- masters
    def master(self, spec):
        k = json.dumps(spec)
        if k not in self._m:
            text = render(spec)
            try:
                m = self.fp.parse(text)
                targets, levels = parameters(m)
                self._m[k] = (m, targets, levels, vlib.obj_sx(m))
            except Exception as e:  # noqa
                self._m[k] = (None, exc_class(e), None, None)
            if len(self._m) > 3000:
                self._m.pop(next(iter(self._m)))
        return self._m[k]

    def corpus(self):
        d = lambda n, lvl=None, mult=False, dis=False: ["d", n, dis, lvl, mult]  # noqa
        s = lambda n, kids, lvl=None, dis=False: ["s", n, dis, lvl, kids]  # noqa
        fix = [s("s", [d("a", 1), s("b", [d("a")])], 2), s("t", [d("a")])]
        tie = [s("x", [d("a", 1)]), s("y", [d("a", 2)]), s("z", [d("ab")])]
        out = [
            # witnesses of repaired defects (F13, F20): must pass
            {"m": [d("m", None, True), d("m", None, True)], "home": None, "arg": "m=3"},  # sets m (was: ambiguous between m and m)
            {"m": [s("x", [d("b", 200)]), s("y", [d("b", 200)]), s("z", [d("ab")])], "home": None, "arg": "b=5"},  # ambiguous x.b / y.b (was: z.ab chosen)
            {"m": [s("x", [d("m", 3, True), d("m", 1, True)]), s("y", [d("m", 2)])], "home": None, "arg": "m=1"},  # first occurrence's level governs
            # regression cases
            {"m": [d("a", None, False, True)], "home": None, "arg": "a=2"},  # no active definition: refused as unknown (was a ValueError)
            {"m": fix, "home": "s", "arg": "a=3"},
            {"m": fix, "home": "s", "arg": "b.a = 3 4 'x y'"},
            {"m": fix, "home": None, "arg": "a=3"},
            {"m": fix, "home": "s", "arg": "q=1"},
            {"m": fix, "home": "s", "arg": "t.a=2;a=5"},
            {"m": fix, "home": "s", "arg": "!a=4"},
            {"m": fix, "home": "t", "arg": "a{b=1}"},
            {"m": tie, "home": None, "arg": "a=5"},
            {"m": [s("x", [d("a", 1)]), s("y", [d("a", 1)])], "home": None, "arg": "a=5"},
            {"m": [s("x", [d("a")], 3), s("y", [d("a", 4)])], "home": None, "arg": "a=\"p;q\""},
            {"m": [["i", "f.phil"], d("a")], "home": None, "arg": "include=5"},
            {"m": [d("a.b"), d("ab"), d("b")], "home": "a", "arg": "b=x = y"},
            {"m": [d("a.b"), d("b.a.b"), d("ab")], "home": "b", "arg": "b='x y'"},
        ]
        return out

    def cases(self, rng, tier):
        nmasters = 500 if tier == "quick" else 4000
        per = 30 if tier == "quick" else 40
        for i in range(nmasters):
            big = i % 8 in (3, 6)
            spec = gen_pathset(rng, big) if i % 2 else gen_objs(rng, 0, [rng.randint(2, 7)], big)
            m, targets, levels, _ = self.master(spec)
            if m is None:
                continue
            scopes = sorted({".".join(t.split(".")[:k]) for t in targets for k in range(1, len(t.split(".")))})
            homes = [None] + rng.sample(scopes, min(2, len(scopes))) + ([rng.choice(["b", "a.b", "c"])] if i % 3 == 0 else [])
            names = arg_names(rng, targets, scopes) or ["a", "b.a"]
            for _ in range(per):
                h = rng.choice(homes)
                n = rng.choice(names) if rng.random() < 0.88 else rng.choice(NON_MATCHING)
                v = rng.choice(VALUES)
                r = rng.random()
                if r < 0.70:
                    arg = n + rng.choice(["=", " = ", "= "]) + v
                elif r < 0.80:
                    arg = "%s=%s;%s=%s" % (n, rng.choice(VALUES[:9]), rng.choice(names), v)
                elif r < 0.85 and "." in n:
                    a, b = n.split(".", 1)
                    arg = "%s{%s=%s}" % (a, b, v)
                elif r < 0.89:
                    arg = "!" + n + "=" + v
                elif r < 0.93:
                    arg = "%s=1 %s=2" % (n, rng.choice(names))
                elif r < 0.96:
                    arg = n + "=" + v + "\n.expert_level=1"
                else:
                    arg = rng.choice([n, "." + n + "=1", n + " 1", "=1", n + "={", "a b=1"])
                yield {"m": spec, "home": h, "arg": arg}

    # ---- implementation
    def impl(self, case):
        m, targets, levels, _ = self.master(case["m"])
        if m is None:
            return ["master-error", targets]
        try:
            src = self.fp.parse(case["arg"])
            sources = [[l.path, [[w.value, qcode(w.quote_token)] for w in l.object.words]] for l in src.all_definitions()]
        except RuntimeError:
            sources = None
        ai = m.command_line_argument_interpreter(home_scope=case["home"])
        buf = io.StringIO()
        result = []
        try:
            with contextlib.redirect_stdout(buf):
                r = ai.process_arg(case["arg"])
            result = [[l.path, [[w.value, qcode(w.quote_token)] for w in l.object.words]] for l in r.all_definitions()]
            end = ["ok", [x[0] for x in result]]
        except self.fp.Sorry as e:
            msg = str(e)
            if msg.startswith("Unknown "):
                end = ["unknown"]
            elif msg.startswith("Ambiguous "):
                lines = msg.split("\n")
                i = lines.index("Best matches:")
                end = ["ambiguous", [l[2:] for l in lines[i + 1:]]]
            elif "has no effect" in msg:
                end = ["noeffect"]
            elif msg.startswith("Error interpreting"):
                end = ["argparse-error"]
            else:
                end = ["sorry-other"]
        except Exception as e:  # noqa
            end = ["crash", exc_class(e)]
        warned = []
        for l in buf.getvalue().split("\n"):
            if l.startswith("Assuming ") and l.endswith(" was intended."):
                warned.append(l[len("Assuming "):-len(" was intended.")])
        if sources is None:
            return ["argparse-error", end]
        return [sources, warned, end, result, list(ai.target_paths or [])]

    def requests(self, case, o):
        if o[0] in ("master-error", "argparse-error"):
            return []
        return [("decide", [home_sx(case["home"]), self.master(case["m"])[3], [s[0] for s in o[0]]])]

    def model(self, case, replies, o):
        if o[0] in ("master-error", "argparse-error"):
            return o  # parsing is not this model's business
        r = replies[0]
        if r == ["unmodelled"]:
            return "UNMODELLED"
        if r == ["badinput"]:
            return ["model-badinput"]
        targets, levels, warned, e = r
        if e[0] == "ok":
            end = ["ok", [p[1] for p in e[1]]]
        elif e[0] == "unknown":
            end = ["unknown"]
        elif e[0] == "ambiguous":
            end = ["ambiguous", e[2]]
        elif e[0] == "noeffect":
            end = ["noeffect"]
        else:
            end = ["crash", "other:" + e[1]]
        # the implementation's effective levels are not observable directly; the model's are compared
        # with the harness's own walk of the real tree as a side check
        if [int(x) for x in levels] != self.master(case["m"])[2]:
            return ["model-levels-differ", levels]
        return [o[0], warned, end, o[3], targets]

    # ---- property on the implementation
    def prop(self, case, o):
        m, targets, levels, _ = self.master(case["m"])
        if o[0] == "master-error":
            return "master does not parse: %r" % (o,)
        if o[0] == "argparse-error":
            return None if o[1] == ["argparse-error"] else "argument does not parse but process_arg gave %r" % (o[1],)
        sources, warned, end, result, _t = o
        chosen, exp_warned, exp_end = [], [], None
        for path, words in sources:
            d = expected_decision(case["home"], path, targets, levels)
            if d[0] == "unknown":
                exp_end = ["unknown"]
                break
            if d[0] == "ambiguous":
                exp_end = ["ambiguous", d[1]]
                break
            chosen.append(d[1])
            if d[2]:
                exp_warned.append(d[1])
        if exp_end is None:
            exp_end = ["ok", chosen] if chosen else ["noeffect"]
        if end != exp_end or warned != exp_warned:
            return "expected %r with warnings %r, got %r with warnings %r" % (exp_end, exp_warned, end, warned)
        if end[0] == "ok":
            # value transfer: the words reach the addressed parameter as (value, quote) pairs
            if [r[1] for r in result] != [s[1] for s in sources]:
                return "value words changed: argument gave %r, result holds %r" % ([s[1] for s in sources], [r[1] for r in result])
        return None

    def in_domain(self, case):
        return True

    def key(self, case, o):
        if o[0] in ("master-error", "argparse-error"):
            return None
        return json.dumps([case["m"], case["home"], case["arg"]])

    def tag(self, case, o):
        if o[0] in ("master-error", "argparse-error"):
            return o[0]
        return o[2][0] + ("+warn" if o[1] else "") + ("/home" if case["home"] else "")

    def shrink(self, case):
        spec = case["m"]

        def drops(objs):
            for i in range(len(objs)):
                yield objs[:i] + objs[i + 1:]
                o = objs[i]
                if o[0] == "s":
                    for k in drops(o[4]):
                        yield objs[:i] + [o[:4] + [k]] + objs[i + 1:]
                    yield objs[:i] + o[4] + objs[i + 1:]
                if o[0] in "ds" and o[3] is not None:
                    yield objs[:i] + [o[:3] + [None] + o[4:]] + objs[i + 1:]
        base = dict(case)
        for s in drops(spec):
            if s:
                yield dict(base, m=s)
        if case["home"] is not None:
            yield dict(base, home=None)
        if "=" in case["arg"]:
            n = case["arg"].split("=")[0].strip()
            if case["arg"] != n + "=1":
                yield dict(base, arg=n + "=1")

    def neighbours(self, case, rng):
        yield from self.shrink(case)
        m, targets, levels, _ = self.master(case["m"])
        if m is None:
            return
        scopes = sorted({".".join(t.split(".")[:k]) for t in targets for k in range(1, len(t.split(".")))})
        base = dict(case)
        for h in [None] + scopes:
            for n in arg_names(rng, targets, scopes):
                yield dict(base, home=h, arg=n + "=1")


# ----------------------------------------------------------------------------- process_args
ARGS = ["", " ", "\t\n", "--a", "--a=3", "--b.a", "-- a", "--", "--=", "a=1", "a = 2", "b.a=x=y", "a", "a b", "-a=1", "- -a", "=",
        "--a =1", " --a", "a=1 ", "\xa0", "zz=1", "--zz", "ab=\"p;q\"", "--ab='x y'"]
ARGS_MASTER = "a = 0\nab = 0\nb {\n  a = 0\n  .type = str\n}\n"


class ProcessArgs(Stream):
    """process_args with process_arg replaced by a recording stub (a text containing one of `fails` raises Sorry):
    which text each argument hands to process_arg, in order; blank arguments skipped; what is left over.
    Property oracle (real process_arg, real fetch): process_and_fetch(args) prints the same as fetching the
    individually interpreted arguments in order."""
    name = "process_args"
    cluster = "CmdLine"

    def __init__(self, ctx):
        super().__init__(ctx)
        self.fp = import_freephil()
        from freephil.command_line import argument_interpreter
        fp = self.fp

        class Stub(argument_interpreter):
            def __init__(self, fails, **kw):
                super().__init__(**kw)
                self.calls = []
                self.fails = fails

            def process_arg(self, arg):
                self.calls.append(arg)
                if any(m in arg for m in self.fails):
                    raise fp.Sorry("stub")
                return ("phil", arg)

        self.Stub = Stub
        self._canon = {}
        self.master = fp.parse(ARGS_MASTER)

    def corpus(self):
        return [{"args": ["--a", " ", "a=1", "--b.a=x"], "fails": [], "collect": False},
                {"args": ["a=1", "zz=1", "a"], "fails": ["zz"], "collect": True},
                {"args": ["a=1", "zz=1", "--a"], "fails": ["zz"], "collect": False},
                {"args": ["--zz", "a=1"], "fails": ["zz"], "collect": True}]

    def cases(self, rng, tier):
        n = 1500 if tier == "quick" else 30000
        for i in range(n):
            k = rng.randint(0, 5)
            args = [rng.choice(ARGS) for _ in range(k)]
            if any(os.path.exists(a) for a in args):
                continue
            fails = ["zz"] if rng.random() < 0.7 else rng.sample(["a=1", "b.a", "zz", "ab"], 2)
            yield {"args": args, "fails": fails, "collect": rng.random() < 0.5}

    def canon_text(self, text):
        """a text handed to process_arg, up to what the parser makes of it (so "x = True" and "x=True" agree)"""
        if text not in self._canon:
            try:
                src = self.fp.parse(text)
                self._canon[text] = [[l.path, [[w.value, qcode(w.quote_token)] for w in l.object.words]] for l in src.all_definitions()]
            except Exception:  # noqa
                self._canon[text] = ["unparseable"]
        return self._canon[text]

    def run_stub(self, args, fails, collect):
        ai = self.Stub(fails, master_phil=self.master)
        remaining = []

        def cp(arg):
            remaining.append(arg)
            return True
        try:
            r = ai.process_args(args, custom_processor=cp if collect else None)
            out = ["ok", [self.canon_text(x[1]) for x in r], remaining]
        except (Exception, self.fp.Sorry) as e:  # noqa
            out = ["err", exc_class(e)]
        return [[self.canon_text(c) for c in ai.calls], out]

    def end_to_end(self, args, collect):
        """the property's last clause on the real thing"""
        ai = self.master.command_line_argument_interpreter()
        try:
            with contextlib.redirect_stdout(io.StringIO()):
                r = ai.process_and_fetch(args, custom_processor="collect_remaining" if collect else None)
            whole = ["ok", (r[0] if collect else r).as_str(), r[1] if collect else []]
        except (Exception, self.fp.Sorry) as e:  # noqa
            return ["err", exc_class(e)]
        # individually: the texts handed to process_arg, each interpreted alone, fetched in order
        stub = self.Stub([], master_phil=self.master)
        try:
            stub.process_args(args, custom_processor=(lambda arg: True))
            ai2 = self.master.command_line_argument_interpreter()
            phils = []
            for t in stub.calls:
                try:
                    with contextlib.redirect_stdout(io.StringIO()):
                        phils.append(ai2.process_arg(t))
                except (Exception, self.fp.Sorry):  # noqa
                    pass
            single = self.master.fetch(sources=phils).as_str()
        except (Exception, self.fp.Sorry) as e:  # noqa
            single = "err:" + exc_class(e)
        return ["ok", whole[1] == single, whole[1], single]

    def impl(self, case):
        args, fails, collect = case["args"], case["fails"], case["collect"]
        singles = [self.run_stub([a], fails, collect) for a in args]
        return [singles, self.run_stub(args, fails, collect)[1], self.end_to_end(args, collect)]

    def requests(self, case, o):
        args, fails, collect = case["args"], case["fails"], case["collect"]
        return [("args", [collect, [], fails, args])] + [("args", [collect, [], fails, [a]]) for a in args]

    def res_obs(self, r):
        if r[0] == "ok":
            return ["ok", [self.canon_text(x) for x in r[1][0]], r[1][1]]
        if r[0] == "uerr":
            return ["err", "Sorry"]
        return ["err", "other:" + r[1]]

    def model(self, case, replies, o):
        for r in replies:
            if r == ["badinput"]:
                return ["model-badinput"]
            if r[1] == ["crash", "Unmodelled"]:
                return "UNMODELLED"
        singles = []
        for r in replies[1:]:
            p = r[0][0]
            singles.append([[self.canon_text(p[1])] if p[0] in ("flag", "def") else [], self.res_obs(r[1])])
        return [singles, self.res_obs(replies[0][1]), o[2]]

    def prop(self, case, o):
        e = o[2]
        if e[0] == "ok" and not e[1]:
            return "process_and_fetch(%r) prints %r but fetching the individually interpreted arguments gives %r" % (case["args"], e[2], e[3])
        return None

    def in_domain(self, case):
        # the end-to-end clause is about arguments that are all interpretable, or collected
        return True

    def key(self, case, o):
        return json.dumps([case["args"], case["fails"], case["collect"]]) if case["args"] else None

    def tag(self, case, o):
        return o[1][0] + ("/collect" if case["collect"] else "")

    def shrink(self, case):
        a = case["args"]
        for i in range(len(a)):
            yield dict(case, args=a[:i] + a[i + 1:])

    def neighbours(self, case, rng):
        yield from self.shrink(case)
        a = case["args"]
        for i in range(len(a) + 1):
            for x in ARGS:
                if not os.path.exists(x):
                    yield dict(case, args=a[:i] + [x] + a[i:])


SPEC = {
    "clusters": ["CmdLine"],
    "streams": [StrOps, Score, Decision, ProcessArgs],
    "rule": "strops: all pairs of strings of length <= 3 (quick) / <= 4 (thorough) over {a,b,.}; "
            "score: every (home, source, target) with target = path of <= 3 components from {a,b,ab} (thorough: +ba), home = none or a "
            "path of <= 2 components, source = every substring of a target (length bound 6/7) plus non-substrings; "
            "decision: seeded random masters (nested scopes and flat dotted path sets, names from {a,b,ab,ba}, disabled objects, "
            "expert levels on scopes and definitions, .multiple duplicates, include lines) x home scopes x argument names that are full "
            "paths, suffixes, interior substrings, scope paths or non-substrings x 14 value texts (quotes, blanks, '=', ';') in 7 argument "
            "shapes; distinct = distinct (master, home, argument); non-trivial = the argument parses; "
            "process_args: random argument lists over 25 argument texts (blank, --flag, --flag=v, name=value, bare words)",
    "trusted": ["Modelled: str.find/startswith/endswith, argument_interpreter.get_path_score, scope.all_definitions/_all_definitions "
                "(paths, disabled and include skipping), the de-duplication of targets by path, recursive_expert_level, the selection logic of process_arg (max, count, "
                "index, tie-break, Best matches list), the per-argument branching of process_args",
                "The tie-break (score - exp_lvl/100 among the positions holding the best score, -inf elsewhere) is floating point in Python "
                "and integer (100*score - exp_lvl, option Z with None = -inf) in the model; all competitors have the same score, so the "
                "comparison is exact for |level| <= 2^40; the model answers 'unmodelled' when a competitor's level is outside that range",
                "Oracle: os.path.isfile (the streams never name existing files)"],
    "modelled": "get_path_score, all_definitions, the choice logic of process_arg and the pre-processing of process_args are modelled by hand "
                "in coq/theories/Model/CmdLine.v. NOT modelled in this check: freephil.parse of the argument (the real parser's source paths "
                "are sent to the model), customized_copy(name=target).as_str() and the final re-parse (value transfer), scope.fetch in "
                "process_and_fetch: these clauses are evaluated by the property oracle on the implementation only (result words equal the "
                "words freephil.parse(arg) produced as (value, quote) pairs; result paths equal the chosen targets; process_and_fetch(args) "
                "prints the same as fetching the individually interpreted arguments in order).",
    "assumptions": ["text restricted to code points < 256",
                    "primary_parent_scope chain of a master object = chain of enclosing scopes (true of trees built by the parser)",
                    "expert levels are ints or None; tie-break theorems are about integer keys (exact for |level| <= 2^40)",
                    "custom_processor is None or collect_remaining; no argument names an existing file"],
}
