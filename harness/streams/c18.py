"""C18 - extracted parameter objects are guarded, self-describing and detached.

Streams (cluster Extract):
  class_attrs  dir(scope_extract) and the bookkeeping entries of an instance vs the model's lists
  paths        generated masters x sources: p = master.fetch(source).extract(); for every scope_extract reachable
               in p (every element of every multiple scope included, depth first, fields in __dict__ order):
               the field path leading to it, __phil_path__(), __phil_path__(object_name=f) for each field f.
               Model: extraction of the fetched tree, then phil_path on every node of [reach].
               Detachment (implementation only, it is aliasing): every extracted list and object is mutated in
               place, then the tree is printed and extracted again; both must be unchanged.
  guard        the same objects x one node x one attribute name (declared, one edit away, reserved, class
               attribute, fresh): outcome of setattr and __inject__, the path spelled in the AttributeError
               (parsed from the message, harness side), a second __inject__, setattr after __inject__.
"""
import json
import re

import vlib
from vlib import Stream, exc_class, import_freephil, canon, obj_sx

import c09
from c09 import Codec, oracles, gen_master, gen_source, render_master, model_res, nowords_lines, NAMES, EDGE_NAMES

PID = "C18"


def dunder(k):
    return k.startswith("__") and k.endswith("__")


def fields_of(e):
    return [k for k in e.__dict__ if not dunder(k)]


def reach(cd, v, path=()):
    """the scope_extract nodes of a value in the model's [reach] order: (field path, node)"""
    out = []
    if isinstance(v, cd.SE):
        out.append((list(path), v))
        for k in fields_of(v):
            out.extend(reach(cd, v.__dict__[k], tuple(path) + (k,)))
    elif isinstance(v, list):
        for x in v:
            out.extend(reach(cd, x, path))
    return out


def res_str(f):
    try:
        r = f()
    except vlib.Timeout:
        raise
    except (Exception, SystemExit) as e:  # noqa
        c = exc_class(e)
        return ["crash", c[6:] if c.startswith("other:") else c]
    return ["ok", [] if r is None else [r]]


_ASSIGN = re.compile(r'\AAssignment to non-existing attribute "(.*)"\n  Please correct', re.S)
_EXISTS = re.compile(r'\AAttribute "(.*)" exists already\.\Z', re.S)


def guard_obs(f, rx):
    """outcome class of a setattr / __inject__ call; the path is parsed from the AttributeError message"""
    try:
        f()
    except vlib.Timeout:
        raise
    except AttributeError as e:
        m = rx.match(str(e))
        return ["refuse", m.group(1)] if m else ["crash", "AttributeError"]
    except (Exception, SystemExit) as e:  # noqa
        c = exc_class(e)
        return ["crash", c[6:] if c.startswith("other:") else c]
    return ["ok"]


def master_kids(nodes, path):
    """the master's nodes declared at a field path: the parameters of every active block of that scope name
    (a non-multiple scope may be written in several blocks)"""
    cur = nodes
    for name in path:
        nxt = []
        found = False
        for n in cur:
            if n[0] == "s" and n[1] == name and not n[4]:
                nxt.extend(n[5])
                found = True
        if not found:
            return None
        cur = nxt
    return cur


class ClassAttrs(Stream):
    name = "class_attrs"
    cluster = "Extract"

    def __init__(self, ctx):
        super().__init__(ctx)
        self.fp = import_freephil()

    def cases(self, rng, tier):
        return [["dir"]]

    def impl(self, case):
        from freephil.common import scope_extract
        e = scope_extract(name="n", parent=None, call=None)
        return [sorted(dir(scope_extract)), sorted(e.__dict__)]

    def requests(self, case, o):
        return [("class_attrs", [])]

    def model(self, case, replies, o):
        return [sorted(replies[0][0]), sorted(replies[0][1])]


class Fetched(Stream):
    """shared: case -> fetched tree"""
    cluster = "Extract"

    def __init__(self, ctx):
        super().__init__(ctx)
        self.fp = import_freephil()
        self.cd = Codec(self.fp)
        self.orc = oracles(self.fp)
        self.side = {}
        self.cache = {}

    def fetched(self, case):
        k = json.dumps([case["m"], case["src"], bool(case.get("direct"))])
        if k not in self.cache:
            if len(self.cache) > 200:
                self.cache.clear()
            try:
                m = self.fp.parse("\n".join(render_master(case["m"])) + "\n")
                w = m if case.get("direct") else m.fetch(source=self.fp.parse(case["src"]))
                self.cache[k] = (m, w, None)
            except vlib.Timeout:
                raise
            except (Exception, SystemExit) as e:  # noqa
                self.cache[k] = (None, None, exc_class(e))
        return self.cache[k]

    def gen(self, rng, i):
        r = i % 10
        if r < 3:
            kind, nodes = "nomult", gen_master(rng, multiples=False)
        elif r < 6:
            kind, nodes = "mult", gen_master(rng, multiples=True)
        elif r < 8:
            kind, nodes = "split", gen_master(rng, multiples=(i % 20 >= 10), split=True)
        else:
            kind, nodes = "loose", gen_master(rng, multiples=True, wf=False)
        return kind, nodes, "\n".join(gen_source(rng, nodes)) + "\n"

    def shrink(self, case):
        lines = case["src"].split("\n")
        for i in range(len(lines)):
            yield dict(case, src="\n".join(lines[:i] + lines[i + 1:]))
        for i in range(len(case["m"])):
            yield dict(case, m=case["m"][:i] + case["m"][i + 1:])


def d_(name, tk, opt=None, mult=False, dis=False, dflt=None):
    return ["d", name, tk, opt, mult, dis, dflt]


def s_(name, kids, opt=None, mult=False, dis=False):
    return ["s", name, opt, mult, dis, kids]


CORPUS_MASTERS = [
    ("nomult", [d_("a", "int"), s_("s", [d_("b", "str"), s_("t", [d_("c", "bool")])])], "s.t.c = False\n"),
    ("mult", [s_("s", [d_("a", "int"), s_("t", [d_("b", "int")], mult=True)], mult=True)], "s { a = 2\n t { b = 3 }\n t { b = 4 } }\ns { a = 5 }\n"),
    ("mult", [d_("a", "ints", mult=True), s_("s", [d_("b", "words")], mult=True, opt=True)], ""),
    ("loose", [s_("s", [d_("a", "int")]), s_("s", [d_("b", "int"), s_("t", [d_("c", "int")])]), d_("a", "int", dis=True)], "s.b = 2\n"),
    # a non-multiple scope written in two blocks, the later one declaring names from the identifier edge set; also inside
    # the elements of a multiple scope (seeded change C18/m2)
    ("loose", [s_("s", [d_("c", "path", dflt="None"), d_("c", "strings", mult=True, dis=True, dflt="Auto")], mult=True, opt=True)],
     "s { c = /a/b }\ns { }\n"),
    ("split", [s_("s", [d_("a", "str")]), s_("s", [d_("__x", "int"), d_("b", "int")]),
               s_("t", [s_("c", [d_("a", "str")]), s_("c", [d_("__phil_x", "int"), d_("x__", "int")])], mult=True)],
     "t { c.a = p }\nt { c.__phil_x = 3 }\n"),
    # a scope at depth 2 written in two blocks, the later block contributing a sub-scope and the elements of a multiple scope:
    # every node still reports its full dotted path
    ("split", [s_("c", [s_("y", [d_("a", "int")])]), s_("c", [s_("y", [s_("g", [d_("b", "int")]), s_("m", [d_("e", "int")], mult=True)])]),
               s_("c", [s_("y", [s_("g", [s_("h", [d_("k", "str")])])])])],
     "c.y.m { e = 1 }\nc.y.m { e = 2 }\nc.y.g.b = 5\n"),
]


# parsed documents extracted as they are (no fetch).  Repaired in 3d13dfd: a disabled object in a LATER block of a scope
# no longer makes __phil_join__ raise; the scope / the .multiple list of the earlier block stays
DIRECT_MASTERS = [
    # repaired in ceef076: a disabled .multiple object after an active non-multiple namesake holding None
    [d_("c", "path", dflt="None"), d_("c", "none", mult=True, dis=True, dflt="x")],
    [s_("s", [s_("t", [d_("a", "none")])]), s_("s", [s_("t", [d_("b", "none")], dis=True)])],
    [s_("s", [s_("t", [d_("a", "none")])]), s_("s", [d_("t", "none", dis=True)])],
    [s_("s", [d_("m", "int", mult=True)]), s_("s", [d_("m", "int", dis=True)])],
    # .multiple lists joined over the blocks of one scope: a leading None placeholder of the earlier block is dropped
    [s_("s", [d_("m", "int", mult=True, dflt="None")]), s_("s", [d_("m", "int", mult=True, dflt="2"), d_("m", "int", mult=True, dflt="3")])],
    [s_("s", [d_("m", "int", mult=True, dflt="None"), d_("m", "int", mult=True, dflt="None")]), s_("s", [d_("m", "int", mult=True, dflt="None")])],
    [s_("s", [d_("m", "int", mult=True, dflt="1")]), s_("s", [d_("m", "int", mult=True, dflt="None")]), s_("s", [d_("m", "int", mult=True, dflt="2")])],
    [s_("s", [s_("t", [d_("a", "int")], mult=True, dis=True)]), s_("s", [s_("t", [d_("a", "int", dflt="5")], mult=True)])],
    [s_("s", [d_("m", "int", mult=True, opt=True, dflt="None")]), s_("s", [d_("m", "int", mult=True, opt=True, dflt="4")])],
    [s_("c", [s_("y", [d_("a", "int")])]), s_("c", [s_("y", [s_("g", [d_("b", "int")]), s_("m", [d_("e", "int")], mult=True)])])],
]


class Paths(Fetched):
    """case = {"m": master nodes, "src": source text, "kind": ...}"""
    name = "paths"

    def corpus(self):
        return [{"m": m, "src": src, "kind": kind} for kind, m, src in CORPUS_MASTERS] + \
               [{"m": m, "src": "", "kind": "split", "direct": True} for m in DIRECT_MASTERS]

    def cases(self, rng, tier):
        n = 1500 if tier == "quick" else 9000
        for i in range(n):
            kind, nodes, src = self.gen(rng, i)
            yield {"m": nodes, "src": src, "kind": kind}

    def mutate_all(self, v, shared_words):
        """in-place mutation of every extracted list and object"""
        if isinstance(v, self.cd.SE):
            for k in fields_of(v):
                x = v.__dict__[k]
                self.mutate_all(x, shared_words)
                if not isinstance(x, list):
                    object.__setattr__(v, k, "junk")
            v.__inject__("junk_attr", 1)
        elif isinstance(v, list):
            if v and all(isinstance(x, self.cd.tk.word) for x in v):
                shared_words.append(1)          # ".type = words" hands out the tree's own list: left alone
                return
            for x in list(v):
                self.mutate_all(x, shared_words)
            v.append("junk")
            v.reverse()
            if len(v) > 1:
                del v[0]

    def impl(self, case):
        key = json.dumps(case, sort_keys=True)
        m, w, err = self.fetched(case)
        if err:
            self.side[key] = None
            return ["fetch-error", err]
        self.orc.reset()
        try:
            p = w.extract()
        except vlib.Timeout:
            raise
        except (Exception, SystemExit) as e:  # noqa
            self.side[key] = {"w": obj_sx(w), "o": self.orc.tables()}
            return {"p": c09.err_obs(e)}
        dump = nowords_lines(self.cd.dump(p))
        nodes = reach(self.cd, p)
        paths = []
        for path, nd in nodes:
            paths.append([path, res_str(lambda: nd.__phil_path__()),
                          [[f, res_str(lambda: nd.__phil_path__(object_name=f))] for f in fields_of(nd)]])
        # declared parameters are fields
        missing = []
        for path, nd in nodes:
            kids = master_kids(case["m"], path)
            if kids is not None:
                for n in kids:
                    dis = n[5] if n[0] == "d" else n[4]
                    if not dis and not hasattr(nd, n[1]):
                        missing.append(".".join(path + [n[1]]))
        # detachment
        before = w.as_str(attributes_level=3)
        shared = []
        self.mutate_all(p, shared)
        after = w.as_str(attributes_level=3)
        try:
            dump2 = nowords_lines(self.cd.dump(w.extract()))
        except (Exception, SystemExit) as e:  # noqa
            dump2 = c09.err_obs(e)
        self.side[key] = {"w": obj_sx(w), "o": self.orc.tables(), "p": self.cd.wire(w.extract())}
        return {"p": ["ok", dump], "paths": canon(paths), "again": dump2, "tree_same": before == after, "missing": missing,
                "wf": "1" if case["kind"] in ("nomult", "mult", "split") else "any"}

    def requests(self, case, o):
        s = self.side.get(json.dumps(case, sort_keys=True))
        if not s:
            return []
        reqs = [("extract", [s["w"], s["o"]]), ("extractwf", s["w"])]
        if "p" in s:
            reqs.append(("paths", s["p"]))
        return reqs

    def model(self, case, replies, o):
        if not replies:
            return o
        r = model_res(replies[0], nowords_lines)
        # Extract.extract_wf (hypothesis of ExtractTotal.extract_total): must hold of every fetch result of a well-formed
        # master, and where it holds the implementation's extraction must not end in an internal error
        wf = replies[1]
        replies = [replies[0]] + list(replies[2:])
        if wf == "1" and isinstance(o, dict) and o["p"][0] == "err" and o["p"][1].startswith("other:"):
            return {"extract_wf-holds-but-implementation-raised": o["p"]}
        if r == "UNMODELLED":
            return r
        if len(replies) == 1:
            return {"p": r}
        # later extractions return what the (pure) model extracts from the unchanged tree
        again = r[1] if r[0] == "ok" else r
        return {"p": r, "paths": replies[1], "again": again, "tree_same": o["tree_same"], "missing": o["missing"],
                "wf": wf if o.get("wf") == "1" else "any"}

    def prop(self, case, o):
        if not isinstance(o, dict) or "paths" not in o:
            return None
        for path, rep, flds in o["paths"]:
            want = ["ok", [".".join(path)]]
            if rep != want:
                return "node at %r reports __phil_path__() = %r" % (path, rep)
            for f, r in flds:
                if r != ["ok", [".".join(path + [f])]]:
                    return "node at %r reports __phil_path__(%r) = %r" % (path, f, r)
        if o["missing"]:
            return "declared parameters that are no attributes of the extracted node: %r" % (o["missing"],)
        if not o["tree_same"]:
            return "mutating extracted values changed the PHIL tree"
        if o["again"] != o["p"][1]:
            return "mutating extracted values changed what a later extraction returns"
        return None

    def in_domain(self, case):
        return case["kind"] in ("nomult", "mult", "split")

    def key(self, case, o):
        return json.dumps([case["m"], case["src"]]) if isinstance(o, dict) else None

    def tag(self, case, o):
        if not isinstance(o, dict):
            return case["kind"] + ":fetch-error"
        n = len(o.get("paths", []))
        return "%s:nodes%s" % (case["kind"], n if n < 4 else "4+")


PROBE_NAMES = NAMES + EDGE_NAMES + EDGE_NAMES + ["__y", "x_", "aa", "x", "A", "b1", "_a", "", "a b", "junk_attr", "s.t",
                       "__phil_name__", "__inject__", "__phil_path__", "__call__", "__str__", "__init__", "__phil_get__",
                       "__phil_parent__", "__phil_call__", "__class__", "__dict__", "__doc__", "__x__"]


class Guard(Fetched):
    """case = {"m", "src", "kind", "k": node selector, "name": attribute name}"""
    name = "guard"

    def corpus(self):
        out = []
        for kind, m, src in CORPUS_MASTERS:
            for k, name in ((0, "a"), (1, "b"), (2, "zz"), (1, "__inject__"), (0, "__phil_name__"), (3, "t"), (2, ""),
                            (1, "__x"), (3, "__phil_x"), (5, "x__"), (1, "__y")):
                out.append({"m": m, "src": src, "kind": kind, "k": k, "name": name})
        for m in DIRECT_MASTERS:
            for k, name in ((1, "t"), (1, "m"), (2, "a"), (1, "zz")):
                out.append({"m": m, "src": "", "kind": "split", "direct": True, "k": k, "name": name})
        return out

    def cases(self, rng, tier):
        n = 1000 if tier == "quick" else 5000
        for i in range(n):
            kind, nodes, src = self.gen(rng, i)
            for _ in range(4):
                yield {"m": nodes, "src": src, "kind": kind, "k": rng.randrange(12), "name": rng.choice(PROBE_NAMES)}

    def node(self, w, k):
        p = w.extract()
        nodes = reach(self.cd, p)
        return nodes[k % len(nodes)]

    def impl(self, case):
        key = json.dumps(case, sort_keys=True)
        m, w, err = self.fetched(case)
        if err:
            self.side[key] = None
            return ["fetch-error", err]
        self.orc.reset()
        try:
            p = w.extract()
        except vlib.Timeout:
            raise
        except (Exception, SystemExit):  # noqa
            self.side[key] = None
            return ["extract-error"]
        nnodes = len(reach(self.cd, p))
        idx = case["k"] % nnodes
        name = case["name"]
        path, nd = self.node(w, idx)
        # declared = an attribute of the node, or a parameter the master declares at this path (whatever was extracted)
        kids = master_kids(case["m"], path) or []
        declared = name in fields_of(nd) or any(n[1] == name and not (n[5] if n[0] == "d" else n[4]) for n in kids)
        # the guard does not depend on the value assigned: None, the value users assign most (oracle only)
        s0 = guard_obs(lambda: setattr(nd, name, None), _ASSIGN)
        path, nd = self.node(w, idx)
        s1 = guard_obs(lambda: setattr(nd, name, "probe"), _ASSIGN)
        keys_s = [k for k in fields_of(nd)] if s1 == ["ok"] else []
        path, nd = self.node(w, idx)
        i1 = guard_obs(lambda: nd.__inject__(name, "probe"), _EXISTS)
        after = []
        if i1 == ["ok"]:
            after = [guard_obs(lambda: nd.__inject__(name, None), _EXISTS),
                     guard_obs(lambda: setattr(nd, name, None), _ASSIGN),
                     [k for k in fields_of(nd)]]
        self.side[key] = {"p": self.cd.wire(p), "i": idx}
        return {"path": path, "declared": declared, "g": canon([s1, i1, after, keys_s]), "s0": canon(s0)}

    def requests(self, case, o):
        s = self.side.get(json.dumps(case, sort_keys=True))
        if not s:
            return []
        return [("guard", [s["p"], s["i"], case["name"]])]

    def model(self, case, replies, o):
        if not replies:
            return o
        r = replies[0]
        if json.dumps(r).count('"unmodelled"'):
            return "UNMODELLED"
        g = [r[0], r[1], r[2], r[3]]
        # names with two leading and trailing underscores are not listed by the harness-side dumper
        if g[2]:
            g[2] = [g[2][0], g[2][1], [k for k in g[2][2] if not dunder(k)]]
        g[3] = [k for k in g[3] if not dunder(k)]
        return {"path": o["path"], "declared": o["declared"], "g": g, "s0": o.get("s0")}

    def prop(self, case, o):
        if not isinstance(o, dict):
            return None
        name, path = case["name"], o["path"]
        s1, i1, after, keys_s = o["g"]
        full = ".".join(path + [name])
        builtin = dunder(name) and name not in ("__x__",)
        if o["declared"] or builtin:
            if builtin and not o["declared"]:
                return None          # attributes of the class / bookkeeping entries: found by getattr, not parameters
            if s1 != ["ok"]:
                return "assignment to the declared parameter %r refused: %r" % (full, s1)
            if i1 != ["refuse", full]:
                return "__inject__ of the existing name %r: %r" % (full, i1)
        else:
            if s1 != ["refuse", full]:
                return "assignment to the undeclared name %r: %r" % (full, s1)
            if o.get("s0") is not None and o["s0"] != ["refuse", full]:
                return "assignment of None to the undeclared name %r: %r" % (full, o["s0"])
            if i1 != ["ok"]:
                return "__inject__ of the fresh name %r: %r" % (full, i1)
            if after[0] != ["refuse", full]:
                return "second __inject__ of %r: %r" % (full, after[0])
            if after[1] != ["ok"]:
                return "assignment after __inject__ of %r: %r" % (full, after[1])
            if name not in after[2] and not dunder(name):
                return "injected name %r is no attribute afterwards" % (full,)
        return None

    def in_domain(self, case):
        return case["kind"] in ("nomult", "mult", "split")

    def key(self, case, o):
        return json.dumps([case["m"], case["src"], case["k"], case["name"]]) if isinstance(o, dict) else None

    def tag(self, case, o):
        if not isinstance(o, dict):
            return "error"
        n = case["name"]
        cls = "declared" if o["declared"] else ("dunder" if dunder(n) else ("name" if n in NAMES else "other"))
        return "%s:%s:%s" % (cls, o["g"][0][0], o["g"][1][0])


SPEC = {
    "clusters": ["Extract"],
    "streams": [ClassAttrs, Paths, Guard],
    "rule": "paths: seeded masters (depth <= 3, names from {a,b,c,s,t}, 17 types, 40% without .multiple, 40% with .multiple definitions "
            "and scopes incl. nested, 20% ill-formed: duplicate sibling names / disabled objects) x sources addressing a random subset "
            "(multiples repeated 1-3 times); every reachable scope_extract is a node. guard: the same x 4 (node, name) probes each, names "
            "from: the 5 parameter names, 9 near misses (one edit away, empty, blank inside, dotted), 13 reserved / class-attribute names. "
            "distinct = distinct (master, source[, node, name])",
    "trusted": ["Modelled: scope.extract, scope_extract.__phil_set__/__phil_join__/__phil_path__/__setattr__/__inject__; the parent "
                "pointer is replaced by the explicit list of enclosing names computed along [reach]",
                "The path inside an AttributeError message is parsed by the harness (regular expression on the message text)",
                "Detachment is checked on the implementation only (mutate every extracted list/object in place, print and re-extract); "
                "word lists of '.type = words' are left alone (shared with the tree by design)",
                "Oracles eval / os.path.expanduser recorded from the implementation (as C09)"],
    "modelled": "object identity / aliasing is not expressible in the value model; fetch is not modelled here (the fetched tree is the input)",
    "assumptions": ["text restricted to code points < 256", "attribute names __class__/__dict__/__weakref__/__phil_parent__/__phil_call__ "
                    "are outside the guard model (counted as unmodelled)"],
}
