"""C08 - fetch_diff is a faithful and minimal difference.

Stream diffs (cluster Idem): generated master x 0-3 sources.  Plan per case (every step = one master.fetch call on the
implementation and one request to the extracted model with the canon table recorded during that call):
  0  W    = M.fetch(S)                       working parameters reachable by fetch from arbitrary sources
  1  Dflt = M.fetch()
  2  D    = M.fetch_diff(W)                  (diff = True, W as an object)
  3  R    = M.fetch(D)                       difference merged back, as an object
  4  Rt   = M.fetch(parse(D.as_str()))       ... re-parsed from its printed text
  5  D2   = M.fetch_diff(R)                  the difference of the restored parameters
  6  D0   = M.fetch_diff(Dflt)               the difference of the master's own defaults
  7  Dt   = M.fetch_diff(parse(W.as_str()))  the difference of the saved-and-reloaded parameters
Property oracle on the implementation's observations = the property text:
  minimal   every definition of D has, under its master definition, a canonical text (extract_format().as_str())
            different from the master's own, and D has no empty scope                (C08_only_differences)
  restore   R and Rt extract (extract() dumped) exactly what W extracts               (C08_restore)
  defaults  D0 prints nothing                                                         (C08_defaults_empty)
  again     D2 prints what D prints                                                   (C08_diff_of_restored)
Domain of the claim (in_domain): D07 of Properties/C07.v evaluated on the case (c07.domain_reasons), masters without
further master occurrences of a .multiple entry (finding F7c otherwise), and W extractable (every value valid for its
type: fetch does not validate, the canonical rendering does).
"""
import json
import warnings

import vlib
from vlib import canon, objs_sx, exc_class

import fetch_common as fc
from fetch_common import run_step, patched_environ, var_names, reraise_control
import c07
from c07 import Cycles, domain_reasons, dump_extract, identity_probes, merge_tables, entries_of


def defs_with_master(fp, master, diff_scope):
    """pairs (master definition, difference definition) reached through equal names; None master = no such parameter"""
    out = []

    def walk(msc, dsc):
        es = entries_of(msc) or []
        byname = {}
        for k in es:
            byname.setdefault(k.name, k)
        for o in dsc.objects:
            k = byname.get(o.name)
            if o.is_definition:
                out.append((k if (k is not None and k.is_definition) else None, o))
            else:
                if k is None or not k.is_scope:
                    out.append((None, o))
                else:
                    if len(o.objects) == 0:
                        out.append(("empty-scope", o))
                    walk(k, o)

    walk(master, diff_scope)
    return out


class Diffs(Cycles):
    name = "diffs"
    cluster = "Idem"
    pid = "C08"
    with_diff_probes = True

    def plan(self, case):
        n = len(case["s"])
        S = [["s", i] for i in range(n)]
        mk = lambda src, diff, role: {"master": "m", "sources": src, "diff": diff, "track": False, "role": role}  # noqa
        return [mk(S, False, "W"), mk([], False, "defaults"), mk([["r", 0]], True, "D"), mk([["r", 2]], False, "R"),
                mk([["p", 2]], False, "Rt"), mk([["r", 3]], True, "D2"), mk([["r", 1]], True, "D0"),
                mk([["p", 0]], True, "Dt")]

    def impl(self, case):
        fp = self.fp
        key = self.ckey(case)
        try:
            objs = {"m": fp.parse(input_string=case["m"]), "s": [fp.parse(input_string=t) for t in case["s"]]}
        except BaseException as e:  # noqa
            reraise_control(e)
            self.stash[key] = []
            self.side[key] = []
            return ["badcase", exc_class(e)]
        env = dict((k, v) for k, v in case.get("env", []))
        universe = var_names([case["m"]] + list(case["s"]))
        obs, reqs, results, side = [], [], [], []
        with patched_environ(env, universe):
            extra, dependent = identity_probes(objs["m"], with_diff=True)
            self.dependent[key] = dependent
            for step in self.plan(case):
                try:
                    master = self._resolve(step["master"], case, objs, results)
                    sources = [self._resolve(r, case, objs, results) for r in step["sources"]]
                except BaseException as e:  # noqa
                    reraise_control(e)
                    master, sources = None, [None]
                if master is None or any(s is None for s in sources):
                    obs.append(["skipped"])
                    reqs.append(None)
                    results.append(None)
                    side.append(None)
                    continue
                o, rq, res = run_step(fp, master, sources, sorted(env.items()), step["diff"], step["track"])
                if extra:
                    rq[3] = merge_tables(rq[3], extra)
                obs.append(o)
                reqs.append(("fetch", rq))
                results.append(res)
                if res is None:
                    side.append(None)
                else:
                    sd = {"text": res.as_str(), "ext": dump_extract(fp, res)}
                    if step["role"] == "D":
                        sd["minimal"] = self.minimal(objs["m"], res)
                    side.append(sd)
        self.stash[key] = reqs
        self.side[key] = side
        if len(self.side) > 20000:
            self.side.clear()
            self.dependent.clear()
        return obs

    def minimal(self, master, d):
        """None if every definition of the difference d differs canonically from its master definition"""
        with warnings.catch_warnings():
            warnings.simplefilter("ignore")
            for k, o in defs_with_master(self.fp, master, d):
                if k == "empty-scope":
                    return "the difference contains the empty scope %s" % o.full_path()
                if k is None:
                    return "the difference contains %s, which the master does not declare" % o.full_path()
                try:
                    a = k.extract_format(source=o).as_str()
                    b = k.extract_format().as_str()
                except BaseException as e:  # noqa
                    reraise_control(e)
                    return "the canonical text of %s cannot be computed (%s)" % (o.full_path(), exc_class(e))
                if a == b:
                    return "the difference contains %s although its canonical text %r is the master's" % (o.full_path(), a)
        return None

    # -- the property on the implementation
    # a master with further occurrences of a .multiple entry: finding F7c (difference merged back in another order)
    ALLOWED_OUTSIDE = set()

    def in_domain(self, case):
        if not super().in_domain(case):
            return False
        return True

    def prop(self, case, obs):
        if not isinstance(obs, list) or not obs or not isinstance(obs[0], list) or obs[0][0] != "ok":
            return None
        side = self.side.get(self.ckey(case))
        if side is None or len(side) != len(obs):
            return None
        W = side[0]
        if isinstance(W["ext"], str):
            return None                  # W holds a value that is not valid for its type: nothing is claimed
        role = {st["role"]: j for j, st in enumerate(self.plan(case))}
        for r in ("D", "R", "Rt", "D2"):
            if obs[role[r]][0] != "ok":
                return "%s: %s" % (r, json.dumps(obs[role[r]])[:200])
        D, R, Rt, D2 = (side[role[r]] for r in ("D", "R", "Rt", "D2"))
        if D.get("minimal") is not None:
            return "minimal: " + D["minimal"]
        if R["ext"] != W["ext"]:
            return "restore: merging the difference %r back extracts %s instead of %s" % (
                D["text"][:150], json.dumps(R["ext"])[:200], json.dumps(W["ext"])[:200])
        if Rt["ext"] != W["ext"]:
            return "restore (text): merging the printed difference %r back extracts %s instead of %s" % (
                D["text"][:150], json.dumps(Rt["ext"])[:200], json.dumps(W["ext"])[:200])
        if D2["text"] != D["text"]:
            return "again: the difference of the restored parameters prints %r instead of %r" % (D2["text"][:200], D["text"][:200])
        if obs[role["defaults"]][0] == "ok":
            if obs[role["D0"]][0] != "ok":
                return "defaults: %s" % json.dumps(obs[role["D0"]])[:200]
            if side[role["D0"]]["text"] != "":
                return "defaults: the difference of the master's own defaults prints %r" % side[role["D0"]]["text"][:200]
        return None

    def tag(self, case, o):
        if not isinstance(o, list) or not o:
            return "other"
        if o[0] == "badcase" or not isinstance(o[0], list):
            return str(o[0])
        rs = self.reasons(case)
        dom = "D08" if not rs else "out:" + "+".join(sorted(rs))[:60]
        first = "ok" if o[0][0] == "ok" else "err:" + (o[0][2] or o[0][1])
        side = self.side.get(self.ckey(case))
        if first == "ok" and side and side[0] and isinstance(side[0]["ext"], str):
            first = "ok-invalid-values"
        return "%s:%s" % (dom, first)

    def corpus(self):
        return CORPUS

    def cases(self, rng, tier):
        n = 2000 if tier == "quick" else 12000
        for i in range(n):
            r = rng.random()
            c = c07.gen_case2(rng, floats=(i % 10 == 9), variables=(False if r < 0.95 else None), dup=(r < 0.30),
                              max_sources=3, profile="shape")
            yield c

    def shrink(self, case):
        return fc.FetchStream.shrink(self, case)

    def neighbours(self, case, rng):
        yield from self.shrink(case)


def _c(m, s):
    return {"m": m, "s": s, "env": [], "diff": 0, "kind": "plain"}


CORPUS = [
    _c("a = 1\n  .type = int\ns\n  .multiple = True\n{\n  b = x\n}\n", ["a = 1\ns { b = y }\ns { b = x }\n"]),
    # a value that is one quoted backslash, last word of its line, other differences after it: the printed difference
    # reads back word for word (a quoted lone backslash is no continuation mark)
    _c("io {\n  separator = \"/\"\n    .type = str\n  n_threads = 1\n    .type = int\n  tag = None\n}\n",
       ["io {\n  tag = run7\n  n_threads = 4\n  separator = \"\\\\\"\n}\n"]),
    # a quoted value holding a backslash directly in front of a line break (and a Windows path): the printed difference reads
    # back as the same string (round 9: an escaper that doubles backslashes selectively turns it into a continuation)
    _c("job {\n  title = None\n    .type = str\n  note = None\n    .type = str\n}\n",
       ["job.title = \"first line\\\\\nsecond line\"\njob.note = \"C:\\\\tmp\\\\\"\n"]),
    # empty string versus None, empty list versus default
    _c("job {\n  title = None\n    .type = str\n  suffix = \"\"\n    .type = str\n  cycles = 1 2\n    .type = ints\n}\n",
       ["job {\n  title = \"\"\n  suffix = None\n  cycles = \"\"\n}\n"]),
    _c("a = 1\ns\n  .multiple = True\n{\n  b = x\n}\n!d = 0\n", ["a = 2\ns { b = y }\ns { b = x }\nzz = 1\nd = 7\n"]),
    # values spelt non-canonically: equal to the defaults, hence absent from the difference
    _c("d = yes\n  .type = bool\ne = 1.0\n  .type = float\nf = 3*2\n  .type = int\ng = a b\n  .type = str\n",
       ["d = True\ne = 1\nf = 6\ng = \"a b\"\n"]),
    _c("d = yes\n  .type = bool\n  .multiple = True\n", ["d = no\nd = 1\nd = 0\n"]),
    _c("c = x *y z\n  .type = choice\nm = *x y *z\n  .type = choice(multi=True)\n", ["c = z\nm = y\n"]),
    _c("a = None\n  .type = int\nb = Auto\n  .type = str\n", ["a = Auto\nb = None\n"]),
    # the quoted one-item lists "Auto" / "None" / "auto" differ from the special values Auto / None they stand beside
    _c("refine {\n  labels = Auto\n    .type = strings\n  tags = Auto\n  w = Auto\n    .type = floats\n  n = 3\n    .type = int\n}\n",
       ["refine.labels = \"Auto\"\nrefine.tags = \"auto\"\nrefine.n = 3\n"]),
    _c("a = None\n  .type = strings\nb = None\nc = Auto\n  .type = strings\n  .multiple = True\n", ["a = \"None\"\nb = \"NONE\"\nc = \"Auto\"\nc = \"none\"\nc = Auto\n"]),
    _c("t = None\n  .type = strings\n", ["t = \"Refinement of the high resolution data set,\nsecond attempt with tighter restraints\" \"run 7\" \"2024\"\n"]),
    # F7c: the source repeats a master-provided instance AFTER a new one: the difference drops it, merging back reorders
    _c("d = 1\n  .type = int\n  .multiple = True\nd = 2\n  .type = int\n  .multiple = True\n", ["d = 3\nd = 2\n"]),
    # F7a territory (outside the domain)
    _c("s\n  .multiple = True\n{\n  d = yes\n    .type = bool\n    .multiple = True\n}\n", ["s { d = no }\n"]),
    # multiple scope instances with partial differences
    _c("s\n  .multiple = True\n{\n  a = 1\n    .type = int\n  b = x\n    .type = str\n}\n",
       ["s { a = 2 }\ns { b = y }\ns { a = 1\n b = x }\ns { a = 2\n b = x }\n"]),
]


# reasons that are recorded findings of C08 (signature -> proposed id)
FINDING_SIGNATURES = {
    "further-occurrence": "F7c",
    "nested-noncanonical-default": "F7a",
    "nested-repeated-inner": "F7b",
    "single-choice": "F7d",
}


def match_finding(finding, failure):
    sig = finding.get("signature")
    if not sig:
        return False
    case = failure.get("case")
    try:
        return sig in c07.signatures_of_case(case)
    except Exception:
        return False


class SaveDiff(vlib.Stream):
    """The observation point interface.index.save_diff / save_param_file(diff_only=True, replace_path=BASE): the diff written
    to disk (path values below BASE spelt with a $(variable) that the file itself defines), parsed again and merged into the
    master, reproduces the working parameters.  Oracle only.  Path values continue after BASE with '/', with identifier
    characters (a sibling directory BASE2, BASE_old) or not at all."""
    name = "save_diff"
    cluster = "Idem"
    MASTER = ("inp {\n  model = None\n    .type = path\n  map = None\n    .type = path\n  extra = None\n    .type = path\n"
              "    .multiple = True\n  n = 1\n    .type = int\n  label = None\n    .type = str\n}\n")
    BASE = "/data/run"

    def __init__(self, ctx):
        super().__init__(ctx)
        self.fp = vlib.import_freephil()

    def cases(self, rng, tier):
        tails = ["/model.pdb", "2/map.ccp4", "_old/a.cif", "/sub/b.cif", "", "/", ".bak/x", "x/y", "/a b/c", "-1/z"]
        for _ in range(60 if tier == "quick" else 600):
            vals = [(self.BASE + rng.choice(tails)) if rng.random() < 0.8 else rng.choice(["/other/c.pdb", "rel/d", "None"]) for _ in range(5)]
            yield {"model": vals[0], "map": vals[1], "extra": vals[2:2 + rng.randint(0, 3)], "n": rng.randint(1, 3), "rp": rng.random() < 0.85,
                   "quotes": rng.randrange(3)}

    def impl(self, case):
        import os, shutil, tempfile
        from freephil import interface
        fp = self.fp

        qs = case.get("quotes", 0)

        def q(v):
            # the user's quote style: double, single, or none where the value has no blank
            if v == "None":
                return v
            k = (qs + len(v)) % 3
            if k == 1:
                return "'%s'" % v
            if k == 2 and " " not in v and v:
                return v
            return '"%s"' % v
        user = "inp.model = %s\ninp.map = %s\n%sinp.n = %d\n" % (
            q(case["model"]), q(case["map"]), "".join("inp.extra = %s\n" % q(v) for v in case["extra"]), case["n"])

        def values(w):
            p = w.extract().inp
            return [p.model, p.map, list(p.extra), p.n]
        d = tempfile.mkdtemp(prefix="c08sd_")
        try:
            with warnings.catch_warnings():
                warnings.simplefilter("ignore")
                master = fp.parse(self.MASTER)
                idx = interface.index(master_phil=master, working_phil=fp.parse(user), fetch_new=True)
                want = values(idx.working_phil)
                f = os.path.join(d, "diff.eff")
                idx.save_diff(f, replace_path=self.BASE if case["rp"] else None)
                text = open(f).read()
                try:
                    got = values(master.fetch(source=fp.parse(file_name=f)))
                except RuntimeError as e:
                    return ["unreadable", str(e)[:200], text[:400]]
                # saving does not disturb the index: it still holds W
                try:
                    after = values(idx.working_phil)
                    after_diff = values(master.fetch(source=idx.get_diff()))
                except RuntimeError as e:
                    return ["disturbed", "after save_diff the index fails: %s" % str(e)[:200], want, text[:400]]
                if after != want or after_diff != want:
                    return ["disturbed", [after, after_diff], want, text[:400]]
            return ["ok"] if got == want else ["differs", got, want, text[:400]]
        finally:
            shutil.rmtree(d, ignore_errors=True)

    def requests(self, case, o):
        return []

    def model(self, case, replies, o):
        return o

    def prop(self, case, o):
        if o[0] == "unreadable":
            return "the diff written by save_diff cannot be merged back (%s); file: %r" % (o[1], o[2])
        if o[0] == "differs":
            return "merging the saved diff back gives %r, the working parameters are %r; file: %r" % (o[1], o[2], o[3])
        if o[0] == "disturbed":
            return "after save_diff the index holds / its difference restores %r, the working parameters were %r; file: %r" % (o[1], o[2], o[3])
        return None

    def tag(self, case, o):
        return o[0]


import cli_streams
from cli_streams import CliDiff  # noqa: E402  (the observation point "phil --diff master user")

SPEC = {
    "clusters": ["Idem"],
    "streams": [Diffs, SaveDiff, CliDiff],
    "rule": "the masters and sources of the C07 stream (seeded grammar; canonical and non-canonical spellings of defaults and values: "
            "yes/1/0, 3*2, 1,2, 1.0, unquoted strings, None/Auto, choices by name / star / plus form; .multiple definitions and "
            "scopes with added, repeated and template-equal instances; 30 % of the masters with repeated sibling names); per case 8 "
            "fetch calls: W, defaults, D = fetch_diff(W), restore from the object and from the printed text, diff of the restored, "
            "diff of the defaults, diff of the re-parsed W; every call compared with the extracted model in diff mode; distinct = "
            "distinct (master, sources, env)",
    "trusted": fc.COMMON_TRUSTED + [
        "The comparison of extracted values (extract() dumped to nested dict / list / repr) and the per-definition minimality "
        "test use the library's own extract / extract_format on the implementation's objects.",
    ],
    "modelled": "hand-written model coq/theories/Model/Fetch.v in diff mode (definition.fetch_diff, the diff branches of scope.fetch: "
                "empty scopes dropped, no template, '-1' markers of master-provided candidates); canon and os.environ are oracles "
                "recorded from the implementation run",
    "assumptions": ["text restricted to code points < 256", "masters without .alias", "no custom converter types",
                    "domain: D07 of Properties/C07.v evaluated per case, no further master occurrence of a .multiple entry, "
                    "W extractable"],
    "match_finding": match_finding,
}
