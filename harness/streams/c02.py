"""C02 - all surface spellings of one abstract tree parse to that same tree."""
import json

import layout as L
import parse_common as pc
import vlib
from vlib import Stream, import_freephil


def view(obs):
    """Observation scoped to C02: trees without line numbers / ids; refusals only as 'refused'."""
    if obs == "UNMODELLED":
        return obs
    if obs[0] == "ok":
        return ["ok", [L.strip_lines(vlib.strip_tree(t)) for t in obs[1]]]
    return ["refused"] if obs[1] in ("RuntimeError", "Sorry") else ["internal", obs[1]]


class Renderings(Stream):
    name = "renderings"
    cluster = "Parse"

    def __init__(self, ctx):
        super().__init__(ctx)
        self.fp = import_freephil()
        self.oracles = {}
        self.hist = {}

    def corpus(self):
        out = []
        # formerly F16 / F5b (repaired): '#phil __END__' inside an off region ends the input; a '#phil __ON__'
        # directly after a line-initial bare '#phil' is recognised
        out.append({"text": "#phil __OFF__\nx=1\n#phil __END__\ny = 2\n", "expected": [], "canon": ""})
        out.append({"text": "#phil __OFF__\nx = 1\n#phil\n#phil __ON__\nn = v\n",
                    "expected": [["def", ["n", "0", "0", "0", "0", "0"], [["v", "n", "0"]], []]], "canon": "n = v\n"})
        return out

    def cases(self, rng, tier):
        n_small = 0
        for at in L.small_atrees():
            for k in range(2 if tier == "quick" else 6):
                n_small += 1
                yield self.mk(rng, at)
        for _ in range(1500 if tier == "quick" else 40000):
            yield self.mk(rng, L.gen_atree(rng))

    def mk(self, rng, at):
        text, exp, hist = L.render(rng, at, stage_b=True)
        for k, v in hist.items():
            self.hist[k] = self.hist.get(k, 0) + v
        return {"text": text, "expected": [L.strip_lines(t) for t in exp], "canon": L.canonical_render(at)}

    def impl(self, case):
        o, orc = pc.impl_parse(self.fp, case["text"])
        self.oracles[case["text"]] = orc
        o2, orc2 = pc.impl_parse(self.fp, case["canon"])
        self.oracles[case["canon"]] = orc2
        return [view(o), view(o2)]

    def requests(self, case, o):
        return [("parse", [self.oracles.get(case["text"], []), case["text"]]),
                ("parse", [self.oracles.get(case["canon"], []), case["canon"]])]

    def model(self, case, replies, o):
        m = [pc.model_parse_obs(r) for r in replies]
        if "UNMODELLED" in m:
            return "UNMODELLED"
        return [view(x) for x in m]

    def prop(self, case, o):
        want = ["ok", case["expected"]]
        if o[0] != want:
            return "rendering parses to %s, abstract tree is %s" % (json.dumps(o[0])[:300], json.dumps(want)[:300])
        if o[1] != want:
            return "plain layout parses to %s, abstract tree is %s" % (json.dumps(o[1])[:300], json.dumps(want)[:300])
        return None

    def key(self, case, o):
        return case["text"] if case["expected"] else None

    def tag(self, case, o):
        return "objects=%d" % min(len(case["expected"]), 5)

    def shrink(self, case):
        for t in pc.shrink_text(case["text"]):
            yield {"text": t, "expected": case["expected"], "canon": case["canon"]}

    def neighbours(self, case, rng):
        # re-render nearby abstract trees (fresh layouts)
        for _ in range(200):
            yield self.mk(rng, L.gen_atree(rng, maxn=2))


class ScanForStart(Stream):
    """character_iterator.scan_for_start on fragment soups: final offset, line counter, return value."""
    name = "scan_for_start"
    cluster = "Tok"
    FR = ["#phil", " ", "\n", "__ON__", "__END__", "__OFF__", "x", "\t", "#", "phil", "  \n", "\r", "\x0c", "a b", "#philx"]

    def __init__(self, ctx):
        super().__init__(ctx)
        import_freephil()
        from freephil import tokenizer
        self.tk = tokenizer
        self._blank = {}

    def cases(self, rng, tier):
        for _ in range(4000 if tier == "quick" else 100000):
            yield "".join(rng.choice(self.FR) for _ in range(rng.randint(0, 12)))
        # structured: whole directive lines with every kind of blank after the keyword (CR LF documents given as strings,
        # form feeds, vertical tabs), between ordinary lines
        tails = ["", " ", "\r", "\x0c", "\x0b", " \t", "\t\r", "x", " x", "\r\r", "\x1c", "\x85", "\xa0"]
        for _ in range(1000 if tier == "quick" else 20000):
            lines = []
            for _ in range(rng.randint(1, 5)):
                if rng.random() < 0.6:
                    lines.append("#phil" + rng.choice([" ", "  ", "\t", ""]) + rng.choice(["__ON__", "__END__", "__OFF__", ""]) + rng.choice(tails))
                else:
                    lines.append(rng.choice(["a = 1", "", "x", "# c", " #phil __ON__", "b {"]) + rng.choice(["", "\r"]))
            yield "\n".join(lines) + rng.choice(["", "\n"])

    def impl(self, case):
        ci = self.tk.character_iterator(case)
        r = ci.scan_for_start(intro="#phil", followups=["__END__", "__ON__"])
        self._blank[case] = self.scan(self.blanked(case))
        return [str(len(case) - ci.i_char), str(ci.line_number), str(r)]

    @staticmethod
    def blanked(text):
        """the same text with every blank character other than the newline spelt as a space"""
        return "".join(" " if (c.isspace() and c != "\n") else c for c in text)

    def scan(self, text):
        ci = self.tk.character_iterator(text)
        try:
            r = ci.scan_for_start(intro="#phil", followups=["__END__", "__ON__"])
        except Exception as e:  # noqa
            return ["raised", type(e).__name__]
        return [str(len(text) - ci.i_char), str(ci.line_number), str(r)]

    def requests(self, case, o):
        return [("sfs", case)]

    def model(self, case, replies, o):
        return replies[0]

    def prop(self, case, o):
        if len(o) != 3:
            return "scan_for_start raised %s" % (o[1:],)
        # layout: which blank characters (space, tab, CR, form feed, ...) stand in a line never matters
        b = self._blank.pop(case, None)
        if b is not None and b != list(o):
            return "scan_for_start gives (rest, line, found) = %s, with every blank spelt as a space %s" % (list(o), b)
        # the scanner's line counter equals 1 + newlines consumed (C15's statement for this function)
        consumed = case[: len(case) - int(o[0])]
        if int(o[1]) != 1 + consumed.count("\n"):
            return "line counter %s after consuming %r" % (o[1], consumed)
        return None

    def tag(self, case, o):
        return "ret=" + o[2] if len(o) == 3 else "exception"

    def shrink(self, case):
        return pc.shrink_text(case)


from line_ends import FileLineEnds  # noqa: E402  (the same tree whatever line terminator the file uses)

SPEC = {
    "clusters": ["Parse", "Tok"],
    "streams": [Renderings, ScanForStart, FileLineEnds],
    "rule": "abstract trees (bounded-exhaustive: all trees of <=2 objects over 2 names, then seeded random to depth 3) x a layout sampler "
            "making every terminator/blank/comment/continuation/nesting-vs-dotted/off-region/'!' choice independently; each rendering and the "
            "plain layout of the same tree are parsed by freephil and by the extracted model; distinct = distinct rendering text; "
            "non-trivial = at least one object.  Plus scan_for_start on fragment soups.",
    "trusted": ["Modelled: tokenizer.py (all of word_iterator, scan_for_start), parser.py (collect_assigned_words, collect_objects), scope.adopt, "
                "identifier/reserved checks, attribute assignment; oracles recorded from the implementation: definition_converters_from_words, "
                "int_from_words beyond decimal literals, scope_extract_call_proxy",
                "The layout grammar (harness/streams/layout.py) defines which texts count as renderings of a tree; its domain excludes "
                "quotes inside trailing comments (a comment in value context is word-wise: finding F14) and line-initial '#phil' inside off regions"],
    "modelled": "tree-level statement checked by correspondence + oracle; theorems are token-level (C02.v)",
    "assumptions": ["text restricted to code points < 256"],
}
