"""C19 - printing filters show exactly what the requested levels allow."""
import json

import layout as L
import parse_common as pc
import vlib
from vlib import Stream, import_freephil, objs_sx, exc_class
from c01 import norm_attrs, truthy


def own_level(at):
    for n, v in at:
        if n == "expert_level" and v[0] == "int":
            return int(v[1])
    return None


def view(t, k, level):
    """Sub-tree that expert level k and attributes level `level` are meant to show; None = hidden."""
    kind, h, body, at = t
    own = own_level(at)
    if own is not None and k is not None and k >= 0 and own > k:
        return None
    h2 = [h[0], h[1], h[2], h[3], "0", "0"]
    if level == 0:
        at2 = []
    elif level == 1:
        at2 = norm_attrs([[n, v] for n, v in at if n in ("help", "alias")], 1)
    else:
        at2 = norm_attrs(at, level)
    if kind == "def":
        dep = [v for n, v in at if n == "deprecated"]
        if level < 3 and dep and truthy(dep[0]):
            return None
        return [kind, h2, [[w[0], w[1], "0"] for w in body], at2]
    kids = [x for x in (view(c, k, level) for c in body) if x is not None]
    if body and body[0][1][3] == "1" and not kids:
        return None
    return [kind, h2, kids, at2]


def views(ts, k, level):
    return [x for x in (view(t, k, level) for t in ts) if x is not None]


def skeleton(ts):
    out = []
    for kind, h, body, at in ts:
        if kind == "def":
            out.append([kind, h[:4], [w[:2] for w in body]])
        else:
            out.append([kind, h[:4], skeleton(body)])
    return out


class Filters(Stream):
    name = "filters"
    cluster = "Parse"
    PREFIXES = ["", "  ", "# ", ">>", "\t"]

    def __init__(self, ctx):
        super().__init__(ctx)
        self.fp = import_freephil()
        self.aux = {}

    def corpus(self):
        return [
            # formerly F11: non-blank prefix and wrapped lines
            {"doc": "a = " + " ".join(["word%d" % i for i in range(20)]) + "\n.help = \"" + "long help " * 12 + "\"\n",
             "expert": None, "level": 2, "prefix": "# ", "width": 50},
            {"doc": "s.t.x = 1\n.expert_level = 3\nb = 2\n", "expert": 1, "level": 3, "prefix": "", "width": None},
            # attribute texts too long for one line that end (or start) with a double-quote character
            {"doc": "strategy = individual\n  .help = 'Several words of help so that the text needs two lines at least; set strategy to \"none\"'\nb = 2\n",
             "expert": None, "level": 1, "prefix": "", "width": 60},
            {"doc": "s {\n  a = 1\n    .caption = '\"quoted\" at the start and a good many more words to pass the print width, then \"quoted\"'\n"
                    "    .help = \"ends with an escaped quote after enough words to be wrapped over two lines at this width \\\"\"\n}\n",
             "expert": None, "level": 2, "prefix": "# ", "width": 50},
            {"doc": "a = 1\n  .help = '\"\" \"\" words words words words words words words words words words words words words words \"\"'\n",
             "expert": None, "level": 3, "prefix": "", "width": 40},
        ]

    def cases(self, rng, tier):
        n = 900 if tier == "quick" else 25000
        for i in range(n):
            at = L.gen_atree(rng, rich=(i % 2 == 0), expert=True, maxn=4)
            doc = L.canonical_render(at) if i % 3 == 0 else L.render(rng, at, stage_b=(i % 2 == 1))[0]   # stage_b: dotted names, continuations, off regions
            yield {"doc": doc, "expert": rng.choice([None, -1, 0, 1, 2, 3, 4, 5]), "level": rng.choice([0, 1, 2, 3]),
                   "prefix": rng.choice(self.PREFIXES), "width": rng.choice([None, 50, 60, 79, 120, 100000])}

    def show(self, t, case, prefix=None, width="same"):
        p = case["prefix"] if prefix is None else prefix
        w = case["width"] if width == "same" else width
        return t.as_str(prefix=p, expert_level=case["expert"], attributes_level=case["level"], print_width=w)

    def impl(self, case):
        fp = self.fp
        o1, orc1, t1 = pc.impl_parse(fp, case["doc"], keep_tree=True)
        if t1 is None:
            return ["unparseable"]
        try:
            text = self.show(t1, case)
            p = case["prefix"]
            w = case["width"]
            w0 = (79 if w is None else w) - len(p)
            text0 = self.show(t1, case, prefix="", width=w0)
        except Exception as e:  # noqa
            return ["print-failed", exc_class(e)]
        o2, orc2 = pc.impl_parse(fp, text0)
        self.aux[id(case)] = (objs_sx(t1), orc2, w0)
        return ["ok", o1[1], text, text0, o2, "1"]

    def requests(self, case, o):
        aux = self.aux.pop(id(case), None)
        if aux is None:
            return []
        tree1, orc2, w0 = aux
        e = [] if case["expert"] is None else [case["expert"]]
        wx = [] if case["width"] is None else [case["width"]]
        return [("show", [tree1, case["prefix"], e, case["level"], wx]),
                ("show", [tree1, "", e, case["level"], [w0]]),
                ("parse", [orc2, o[3]]), ("wfshow", tree1)]

    def model(self, case, replies, o):
        if o[0] != "ok":
            return o
        a, b, c, wf = replies
        for r in (a, b):
            if r[0] == "uerr" and r[1] == "Unmodelled":
                return "UNMODELLED"
        p2 = pc.model_parse_obs(c)
        if p2 == "UNMODELLED":
            return p2
        if a[0] != "ok" or b[0] != "ok":
            return ["model-differs", a[:2], b[:2]]
        # last field: every parsed tree meets the hypothesis (wf_show) of C19_expert_filter_is_prune
        return ["ok", o[1], a[1], b[1], p2, wf]

    def prop(self, case, o):
        if o[0] == "unparseable":
            return None
        if o[0] != "ok":
            return "printing failed: %s" % o[1]
        t1, text, text0, p2 = o[1], o[2], o[3], o[4]
        p = case["prefix"]
        # (1) a prefix is prepended to every line and changes nothing else
        expected = "".join(p + ln + "\n" for ln in text0.split("\n")[:-1]) if text0.endswith("\n") or text0 == "" else None
        if expected != text and not self._has_ml(text0):
            return "prefix %r is not simply prepended to every line" % p
        # (2) the filtered text parses to exactly the allowed sub-tree
        if p2[0] != "ok":
            return "filtered text does not parse: %s" % json.dumps(p2)[:200]
        want = views(t1, case["expert"], case["level"])
        got = views(p2[1], None, case["level"])
        if want != got:
            return "filtered tree differs: got %s want %s" % (json.dumps(got)[:400], json.dumps(want)[:400])
        return None

    @staticmethod
    def _has_ml(text0):
        # a newline inside a quoted word belongs to the word: the printer cannot prefix that line
        from freephil import tokenizer
        try:
            it = tokenizer.word_iterator(text0, list_of_settings=[tokenizer.settings(contiguous_word_characters="")])
            return any(w.quote_token and "\n" in str(w) for w in it)
        except Exception:  # noqa
            return True

    def key(self, case, o):
        return json.dumps(case, sort_keys=True) if o[0] == "ok" and o[1] else None

    def tag(self, case, o):
        return "e=%s,a=%s" % (case["expert"], case["level"])

    def shrink(self, case):
        for t in pc.shrink_text(case["doc"]):
            c = dict(case); c["doc"] = t
            yield c

    def neighbours(self, case, rng):
        yield from self.shrink(case)
        for e in (None, -1, 0, 1, 2, 3):
            for lv in (0, 1, 2, 3):
                c = dict(case); c["expert"] = e; c["level"] = lv
                yield c


class Skeleton(Stream):
    """Same tree at every attributes level once attributes are ignored (expert filter off)."""
    name = "skeleton"
    cluster = "Parse"

    def __init__(self, ctx):
        super().__init__(ctx)
        self.fp = import_freephil()

    def cases(self, rng, tier):
        for i in range(250 if tier == "quick" else 6000):
            at = L.gen_atree(rng, rich=True, expert=True, maxn=3)
            # deprecated definitions are hidden below level 3 by design: keep them out of this stream
            doc = L.canonical_render(at)
            if ".deprecated" in doc:
                continue
            yield {"doc": doc, "width": rng.choice([None, 60, 100000])}

    def impl(self, case):
        fp = self.fp
        try:
            t1 = fp.parse(case["doc"])
        except Exception:  # noqa
            return ["unparseable"]
        out = []
        for lv in (0, 1, 2, 3):
            try:
                t = fp.parse(t1.as_str(attributes_level=lv, print_width=case["width"]))
                out.append(skeleton(vlib.canon(objs_sx(t))))
            except Exception as e:  # noqa
                out.append(["err", exc_class(e)])
        return ["ok", out]

    def requests(self, case, o):
        return []

    def model(self, case, replies, o):
        return o  # oracle-only stream (the model side of these steps is exercised by 'filters')

    def prop(self, case, o):
        if o[0] != "ok":
            return None
        a = o[1]
        if not (a[0] == a[1] == a[2] == a[3]):
            return "skeleton differs between attribute levels"
        return None


from cli_streams import CliPrefix  # noqa: E402  (the observation point "phil --print_prefix ...")

SPEC = {
    "clusters": ["Parse"],
    "streams": [Filters, Skeleton, CliPrefix],
    "rule": "random trees with expert levels (unset, 0..4) on any mixture of scopes/definitions incl. dotted-name scopes and disabled objects x "
            "expert_level in {None,-1,0..5} x attributes_level 0..3 x prefixes {'', blanks, '# ', '>>', tab} x widths; freephil's text compared byte "
            "for byte with the model's, filtered text re-parsed on both sides; distinct = distinct case; non-trivial = at least one object",
    "trusted": ["Modelled: printer and parser as in C01/C02.  The oracle's notion of 'allowed sub-tree' (view) is the property text made executable."],
    "modelled": "C19.v: the expert filter equals printing the pruned tree, negative/absent level shows everything, level 0 prints no attribute, "
                "attribute visibility is monotone in the level (theorems over the printer model); re-parse clause by correspondence + oracle",
    "assumptions": ["text restricted to code points < 256", "widths >= 50 (beyond the indentation, the property's proviso)"],
}
