"""Abstract PHIL trees and a layout sampler that renders them in every surface spelling the
language allows (C02) while recording the source line of every emitted token (C15)."""
from vlib import qcode

QUOTES = ["'", '"', "'''", '"""']
NAMES = ["a", "b", "c", "ab", "s", "t", "x1", "_y", "long_name"]
UNQ = ["1", "2.5", "x", "None", "Auto", "yes", "*a", "a+b", "#x", "x#y", "$a", "a=b", "e'm", 'x"y', "!", ".a", "-3", "a.b", "(1,2)", "\\x"]
QTEXT = ["", "q", "\\", "#", ";", "a b", "it's", 'say "hi"', "back\\slash", "end\\", "li\nne", "\n", "two\n\nnl", "$v", "#", "{;}", "\\\n", "tab\there", "a\\'b",
         # inner lines that are blank-only or indented (text processing of the whole document must not touch the inside of quotes)
         "+--+\n  \n+--+", "x\n y", "a\n\t\nb", "  lead\n  and\n  more", "cr\r\nlf"]
# content of switched-off regions: anything whose lines do not START with "#phil" (a line-initial "#phil..." is
# interpreted by scan_for_start; see findings F5a/F5b)
JUNK = ["x = 1\n", "garbage { ; = \n", "'unclosed\n", " #phil __ON__\n", "}\n", '"""\n', "# comment\n", "\n", "a #phil __ON__\n",
        "# phil __ON__\n", "\t#phil __END__\n"]


def escape(qc, s):
    return s.replace("\\", "\\\\").replace(qc, "\\" + qc)


def quote(qt, s):
    return qt + escape(qt[0], s) + qt


LONG_UNQ = ["averyveryverylongunquotedword_0123456789", "x" * 30, "1.234567890123", "path/to/some/file.ext"]
LONG_Q = ["a fairly long quoted string with several words in it", "q" * 45, "ends with backslash \\", 'has "both" kinds \'of\' quotes']


def gen_words(rng, rich=False):
    n = rng.choice([1, 1, 1, 2, 2, 3, 5] + ([8, 12, 16] if rich else []))
    ws = []
    multiline = False
    for _ in range(n):
        # after a quoted word that spans lines only quoted words can follow (an unquoted word, also a
        # continuation backslash, must stand on the line where the previous word STARTS)
        if multiline or rng.random() < 0.45:
            v = rng.choice(QTEXT + (LONG_Q if rich else []))
            ws.append([v, rng.choice(QUOTES)])
            multiline = multiline or "\n" in v
        else:
            ws.append([rng.choice(UNQ + (LONG_UNQ if rich else [])), None])
    return ws


DEF_ATTRS = [
    ("help", '"some help"', ["str", "some help"]), ("help", "plain", ["str", "plain"]), ("help", "a b", ["str", "a b"]),
    ("caption", "cap", ["str", "cap"]), ("short_caption", '"s c"', ["str", "s c"]), ("style", "bold", ["str", "bold"]),
    ("alias", "al", ["str", "al"]), ("optional", "True", ["bool", "1"]), ("optional", "no", ["bool", "0"]),
    ("multiple", "False", ["bool", "0"]), ("multiple", "on", ["bool", "1"]), ("input_size", "3", ["int", "3"]),
    ("expert_level", "2", ["int", "2"]), ("expert_level", "0", ["int", "0"]), ("optional", "Auto", ["auto"]),
    ("type", "int", ["type", ["int", [], [], "1"]]), ("type", "str", ["type", ["str"]]), ("type", "bool", ["type", ["bool"]]),
    ("type", "choice(multi=True)", ["type", ["choice", "1"]]), ("type", "ints(size=3)", ["type", ["ints", ["3"], ["3"], [], [], "0", "0"]]),
    ("help", "None", None), ("deprecated", "True", ["str", "True"]),
]
SCOPE_ATTRS = [
    ("help", '"scope help"', ["str", "scope help"]), ("style", "box", ["str", "box"]), ("caption", "c", ["str", "c"]),
    ("optional", "True", ["bool", "1"]), ("multiple", "True", ["bool", "1"]), ("disable_add", "yes", ["bool", "1"]),
    ("expert_level", "1", ["int", "1"]), ("alias", "sa", ["str", "sa"]), ("sequential_format", "a%d", ["str", "a%d"]),
    ("short_caption", "None", None),
]
DEF_ORDER = ["help", "caption", "short_caption", "optional", "type", "multiple", "input_size", "style", "expert_level", "deprecated", "alias"]
SCOPE_ORDER = ["style", "help", "caption", "short_caption", "optional", "call", "multiple", "sequential_format", "disable_add",
               "disable_delete", "expert_level", "alias"]


LONG_HELPS = [
    "This is a long help text that certainly does not fit on one line of forty or seventy-nine characters and has to be re-flowed by the printer.",
    "hyphen-ated words-and-more-hyphens in-a-long help-text that-needs wrapping at-some-point or-other, really-really",
    "tab\tseparated\twords\tin\ta\thelp\ttext\tthat\tis\tlong\tenough\tto\twrap\taround\tthe\twidth",
    'quotes "inside" the \\ help \\" text with back\\slashes " and more " quotes \\ to make the escaped form longer than the raw one',
    "w" * 120, "   " + "lead and trail blanks " * 5 + "   ", " " * 70, "two\nlines and\n\nmore lines of help text that go on and on and on and on and on",
    "short-ish help", "", "x", "$var in help ${not} a variable", "semi;colon {brace} #hash = equals ! bang",
    # strings that read back as the None / Auto objects unless printed in quotes (repaired in /repo 9a822a9), and look-alikes
    "None", "Auto", "none", "AUTO", "nONE", "None ", "Nonex", "True", "123", "a.b", "_x1",
    # identifier-like texts with a line break / blank at either end (must be printed in quotes)
    "box\n", "None\n", "a.b\n", "\nbold", "x\ny", "bold\t", "\x0bv", "refine\r",
]
RICH_DEF_ATTRS = [("type", t, "x") for t in [
    "int(value_min=0)", "int(value_min=-3, value_max=9, allow_none=False)", "int(allow_none=True)", "float(value_max=2.5)", "float",
    "float(value_min=0, value_max=1, allow_none=False)", "ints(size=3)", "ints(size_min=2, size_max=4, value_min=0)",
    "ints(value_max=10, allow_none_elements=True, allow_auto_elements=True)", "floats(allow_none_elements=True)", "floats(size_max=5)",
    "choice", "strings", "words", "qstr", "path", "key", "None", "Auto"]] + [
    ("optional", "Auto", "x"), ("multiple", "None", "x"), ("input_size", "Auto", "x"), ("expert_level", "4", "x"), ("deprecated", "False", "x"),
    ("deprecated", "None", "x"), ("style", "noauto bold", "x"), ("alias", "None", "x"), ("caption", '"a b c"', "x")]
RICH_SCOPE_ATTRS = [("sequential_format", "None", "x"), ("disable_delete", "True", "x"), ("optional", "Auto", "x"), ("expert_level", "3", "x"),
                    ("style", "auto_align box", "x")]


def rich_tables():
    helps_d = [(n, quote('"', h), "x") for h in LONG_HELPS for n in ("help", "caption", "short_caption")]
    helps_s = [(n, quote('"', h), "x") for h in LONG_HELPS for n in ("help", "caption")]
    return DEF_ATTRS + RICH_DEF_ATTRS + helps_d, SCOPE_ATTRS + RICH_SCOPE_ATTRS + helps_s


def gen_attrs(rng, table, p=0.35):
    out = []
    while rng.random() < p and len(out) < 4:
        n, text, val = rng.choice(table)
        out.append([n, text, val, rng.random() < 0.15])  # last: written with '!' (disabled attribute)
    return out


def gen_atree(rng, depth=0, maxn=4, rich=False, expert=False):
    nodes = []
    dt, st = rich_tables() if rich else (DEF_ATTRS, SCOPE_ATTRS)
    for _ in range(rng.randint(0 if depth else 1, maxn)):
        if rng.random() < 0.6 or depth >= 3:
            n = {"k": "def", "name": rng.choice(NAMES), "dis": rng.random() < 0.12, "words": gen_words(rng, rich),
                 "attrs": gen_attrs(rng, dt, 0.5 if rich else 0.35)}
        else:
            n = {"k": "scope", "name": rng.choice(NAMES), "dis": rng.random() < 0.12, "attrs": gen_attrs(rng, st, 0.4 if rich else 0.25),
                 "kids": gen_atree(rng, depth + 1, 3, rich, expert)}
        if expert and rng.random() < 0.5:
            lvl = rng.choice(["0", "1", "2", "3", "4"])
            n["attrs"].append(["expert_level", lvl, ["int", lvl], False])
        nodes.append(n)
    return nodes


def small_atrees():
    """All abstract trees with <= 2 objects over 2 names and <= 2 words (bounded-exhaustive part)."""
    words = [[["1", None]], [["a b", '"']], [["x", None], ["li\nne", "'''"]]]
    defs = [{"k": "def", "name": n, "dis": d, "words": w, "attrs": []} for n in ("a", "b") for d in (False, True) for w in words]
    scopes = []
    for n in ("a", "b"):
        for d in (False, True):
            for kids in ([], [defs[0]], [defs[3], defs[7]]):
                scopes.append({"k": "scope", "name": n, "dis": d, "attrs": [], "kids": list(kids)})
    singles = defs + scopes
    for x in singles:
        yield [x]
    for x in singles[::2]:
        for y in singles[1::3]:
            yield [x, y]


def final_attrs(attrs, order):
    """Attribute values after all assignments (later wins; '!' ones skipped; None removes)."""
    cur = {}
    for n, text, val, dis in attrs:
        if dis:
            continue
        cur[n] = val
    return [[n, cur[n]] for n in order if cur.get(n) is not None]


class Renderer:
    def __init__(self, rng, stage_b=True, record_lines=True):
        self.rng = rng
        self.out = []
        self.line = 1
        self.stage_b = stage_b
        self.layout_hist = {}

    def note(self, k):
        self.layout_hist[k] = self.layout_hist.get(k, 0) + 1

    def emit(self, s):
        self.out.append(s)
        self.line += s.count("\n")

    def at_line_start(self):
        t = "".join(self.out[-3:]) if self.out else ""
        return (not self.out) or "".join(self.out).endswith("\n")

    def blank(self, allow_nl=False):
        r = self.rng
        self.emit(r.choice([" ", " ", "  ", "\t", "   "]))

    def opt_blank(self):
        if self.rng.random() < 0.5:
            self.blank()

    def vspace(self):
        r = self.rng
        k = r.random()
        if k < 0.15:
            self.emit("\n"); self.note("blankline")
        elif k < 0.25:
            self.emit("  \n\n"); self.note("blankline")
        elif k < 0.33:
            self.emit("# a comment line {;}\n"); self.note("ownline_comment")
        elif k < 0.38:
            self.emit("   # indented comment\n"); self.note("ownline_comment")

    def terminator(self, allow_semicolon=True):
        """End of a value: newline, or ';' (same line continues), optionally a trailing comment."""
        r = self.rng
        k = r.random()
        if allow_semicolon and k < 0.25:
            self.opt_blank(); self.emit(";"); self.note("semicolon")
            if r.random() < 0.5:
                self.opt_blank(); self.emit("\n")
            else:
                self.emit(" ")
        elif k < 0.40:
            self.emit(" # trailing comment {=;}\n"); self.note("trailing_comment")
        else:
            self.opt_blank(); self.emit("\n"); self.note("newline")

    def words(self, ws):
        """Emit value words; returns list of [value, qcode, line]."""
        r = self.rng
        res = []
        prev_multiline = False
        for i, (v, q) in enumerate(ws):
            if i == 0:
                self.opt_blank()
            else:
                k = r.random()
                if prev_multiline:
                    # only blanks or newlines may separate the following (quoted) words
                    if k < 0.5:
                        self.blank()
                    else:
                        self.opt_blank(); self.emit("\n"); self.emit(r.choice(["", "  "])); self.note("quoted_continuation")
                elif q is not None and self.stage_b and k < 0.2:
                    # quoted continuation line: a quoted word may start on a later line
                    self.opt_blank(); self.emit("\n"); self.emit(r.choice(["", "   ", "\t"])); self.note("quoted_continuation")
                elif self.stage_b and k < 0.35:
                    self.emit(" \\"); self.opt_blank(); self.emit("\n"); self.emit(r.choice(["", "  "])); self.note("backslash_continuation")
                else:
                    self.blank()
            text = v if q is None else quote(q, v)
            if q is not None and self.stage_b and r.random() < 0.15 and all(q2 is not None for _, q2 in ws[i + 1:]):
                # continuation inside the quotes: a backslash-newline pair is dropped by the tokenizer
                body = text[len(q):len(text) - len(q)]
                pos = [j for j in range(len(body) + 1) if j == 0 or body[j - 1] != "\\"]
                j = r.choice(pos)
                text = q + body[:j] + "\\\n" + body[j:] + q
                self.note("inquote_continuation")
            res.append([v, qcode(q), str(self.line)])
            self.emit(text)
            prev_multiline = prev_multiline or "\n" in text
        return res, prev_multiline

    def attr_lines(self, attrs, indent, scope):
        for n, text, val, dis in attrs:
            r = self.rng
            if scope:
                self.emit(r.choice([" ", "\n", "\n  "]))
            else:
                self.emit(indent + r.choice(["", "  "]))
            self.emit(("!" if dis else "") + "." + n)
            if dis:
                self.note("bang_attr")
                if r.random() < 0.5:
                    # a switched-off attribute is not interpreted at all: text that would not convert is as good as any
                    text = {"expert_level": "advanced", "input_size": "wide", "optional": "sometimes", "multiple": "maybe",
                            "type": "my_future_type(size=3)", "deprecated": "soon"}.get(n, text)
            self.opt_blank(); self.emit("="); self.opt_blank()
            self.emit(text)
            if scope:
                k = r.random()
                if k < 0.3:
                    self.emit(";")
                else:
                    self.emit("\n" + indent)
            else:
                self.terminator()

    def node(self, n, indent, dotted_prefix=None):
        r = self.rng
        name = n["name"] if not dotted_prefix else ".".join(dotted_prefix + [n["name"]])
        if n["k"] == "def":
            self.emit(indent)
            line0 = self.line
            self.emit(("!" if n["dis"] else "") + name)
            if n["dis"]:
                self.note("bang_def")
            self.opt_blank(); self.emit("=")
            ws, ml = self.words(n["words"])
            # after a multi-line quoted word the line ends where the word ends
            self.terminator(allow_semicolon=True)
            self.attr_lines(n["attrs"], indent, False)
            hdr = [n["name"], "1" if n["dis"] else "0", "0", "1" if dotted_prefix else "0", "0", str(line0)]
            return ["def", hdr, ws, final_attrs(n["attrs"], DEF_ORDER)]
        # scope: maybe spell a plain single-child chain with a dotted name
        kids = n["kids"]
        if (self.stage_b or True) and not n["dis"] and not n["attrs"] and len(kids) == 1 and r.random() < 0.4:
            self.note("dotted_name")
            inner = self.node(kids[0], indent, (dotted_prefix or []) + [n["name"]])
            hdr = [n["name"], "0", "0", "1" if dotted_prefix else "0", "0", "0"]
            return ["scope", hdr, [inner], []]
        self.emit(indent)
        line0 = self.line
        self.emit(("!" if n["dis"] else "") + name)
        if n["dis"]:
            self.note("bang_scope")
        self.attr_lines(n["attrs"], indent, True)
        k = r.random()
        if k < 0.4:
            self.emit(" {"); self.note("brace_same_line")
        elif k < 0.7:
            self.emit("\n" + indent + "{"); self.note("brace_next_line")
        else:
            self.emit("{")
        self.emit(r.choice(["\n", " ", "\n\n"]))
        sub = self.nodes(kids, indent + r.choice(["  ", "", "\t"]))
        self.emit(indent + "}")
        self.emit(r.choice(["\n", " ", "\n"]))
        hdr = [n["name"], "1" if n["dis"] else "0", "0", "1" if dotted_prefix else "0", "0", str(line0)]
        return ["scope", hdr, sub, final_attrs(n["attrs"], SCOPE_ORDER)]

    def off_region(self):
        r = self.rng
        if not self.at_line_start():
            self.emit("\n")
        self.emit("#phil __OFF__" + r.choice(["\n", "  \n", " trailing words\n"]))
        for _ in range(r.randint(0, 3)):
            self.emit(r.choice(JUNK))
        if not self.at_line_start():
            self.emit("\n")
        self.emit(r.choice(["#phil __ON__\n", "#phil   __ON__  \n", "#phil\t__ON__\n"]))
        self.note("off_region")

    def nodes(self, ns, indent):
        res = []
        for n in ns:
            self.vspace()
            if self.stage_b and self.rng.random() < 0.08:
                self.off_region()
            res.append(self.node(n, indent))
        self.vspace()
        return res

    def render(self, atree):
        res = self.nodes(atree, "")
        if self.stage_b and self.rng.random() < 0.1:
            if not self.at_line_start():
                self.emit("\n")
            self.emit("#phil __END__\n")
            self.emit(self.rng.choice(JUNK) + "zzz = 1\n")
            self.note("end_directive")
        return "".join(self.out), res


def render(rng, atree, stage_b=True):
    r = Renderer(rng, stage_b)
    text, expected = r.render(atree)
    return text, expected, r.layout_hist


def canonical_render(atree):
    """One fixed plain layout (newline terminators, braces, no comments) of the same abstract tree."""
    out = []

    def go(ns, ind):
        for n in ns:
            if n["k"] == "def":
                out.append(ind + ("!" if n["dis"] else "") + n["name"] + " = " + " ".join(v if q is None else quote(q, v) for v, q in n["words"]) + "\n")
                # an unquoted word after a multi-line quoted word needs the line to continue: use backslash
                for a, text, val, dis in n["attrs"]:
                    out.append(ind + "  " + ("!" if dis else "") + "." + a + " = " + text + "\n")
            else:
                out.append(ind + ("!" if n["dis"] else "") + n["name"] + "\n")
                for a, text, val, dis in n["attrs"]:
                    out.append(ind + "  " + ("!" if dis else "") + "." + a + " = " + text + "\n")
                out.append(ind + "{\n")
                go(n["kids"], ind + "  ")
                out.append(ind + "}\n")
    go(atree, "")
    return "".join(out)


def strip_lines(t):
    """expected/observed tree without line numbers, ids, merge flags (abstract structure only)."""
    kind, h, body, at = t
    h2 = [h[0], h[1], h[2], "0", "0", "0"]
    if kind == "def":
        return [kind, h2, [[w[0], w[1], "0"] for w in body], at]
    return [kind, h2, [strip_lines(k) for k in body], at]


def lines_only(t):
    """(name, line) of every object that has a line, and (value, line) of every word."""
    kind, h, body, at = t
    out = []
    if h[5] != "0":
        out.append([h[0], h[5]])
    if kind == "def":
        out.extend([w[0], w[2]] for w in body)
    else:
        for k in body:
            out.extend(lines_only(k))
    return out
