"""Shared by the fetch checks (C04, C06; later C05, C07, C08): master / source generators, the
implementation runner for master.fetch(sources=..., track_unused_definitions=..., diff=...) with the
canon oracle recorded, request building for the extracted model (cluster Fetch), tree observation,
and a stream base class driven by a *plan* (a list of fetch steps) so that later checks can run
several rounds (re-fetch of a result, fetch of a diff, rewritten sources).

Case (JSON): {"m": master text, "s": [source text, ...], "env": [[name, value], ...], "diff": 0|1,
              "kind": generator tag}

Observation of one step
  ["ok", tree, unused]          tree = vlib.canon(objs_sx(result)) at FULL detail: names, words with quote
                                and line, attributes, is_template, primary ids, where-lines.  (Headers of
                                result objects are the master's by customized_copy; words are the source's
                                word objects, the choice converter's rebuilt words, or substitution products
                                with line 0 - the model reproduces all of these, so nothing is stripped.)
                                unused = ["none"] (tracking off) | ["ok", [[path, line], ...]]
  ["err", class, kind]          class as vlib.exc_class; kind from the message-prefix table below
                                (never the wording, never the line: C04-C09 compare only the kind)
  ["skipped"]                   a step whose inputs depend on a failed step

The canon oracle: definition.extract_format / scope.extract_format are wrapped; every call
X.extract_format(source=Y) is recorded as [obj_sx(X), obj_sx(Y) or [], outcome of .as_str()].
"""
import contextlib
import json
import os
import re
import warnings

import vlib
from vlib import Stream, canon, exc_class, import_freephil, objs_sx, obj_sx, where_line

# ----------------------------------------------------------------------------- errors
ERR_TABLE = [
    (r"^Incompatible parameter objects: definition ", "IncompatibleDefinitionScope"),
    (r"^Incompatible parameter objects: scope ", "IncompatibleScopeDefinition"),
    (r"^Duplicate definitions in master", "DuplicateMaster"),
    (r"^Syntax error: \$ must be followed", "VarDollarEnd"),
    (r'^Syntax error: missing "\)"', "VarMissingParen"),
    (r"^Syntax error: improper variable name", "VarImproperName"),
    (r"^Not a definition", "NotADefinition"),
    (r"^Undefined variable", "UndefinedVariable"),
    (r"^Not a possible choice for", "NotAChoice"),
    # raised inside the canon oracle (extract_format): recorded with the same table on both sides
    (r"^Multiple choices for", "MultipleChoices"),
    (r"^Unspecified choice for", "UnspecifiedChoice"),
    (r"^Invalid choice", "InvalidChoice"),
    (r"^Empty list for mandatory", "EmptyMandatory"),
    (r"^Improper master choice", "ImproperMaster"),
    (r"^One True or False value expected", "NotBool"),
    (r"^Error interpreting .* as a numeric expression", "NotNumeric"),
    (r"^Error interpreting .* as an integer expression", "NotInteger"),
    (r"^Error interpreting .* as a floating-point expression", "NotFloat"),
    (r"^.* element cannot be (None|Auto)", "BadElement"),
    (r"^.* element is (less|greater) than the (minimum|maximum) allowed value", "OutOfRange"),
    (r"^(Not enough|Too many) values for", "BadSize"),
    (r"^.* cannot be None", "CannotBeNone"),
    (r"^Invalid choice", "InvalidChoice"),
    (r"^Invalid ", "InvalidChoice"),
]
_ERR = [(re.compile(p, re.S), k) for p, k in ERR_TABLE]
SORRY_KINDS = ("NotAChoice",)


def err_kind(msg):
    for r, k in _ERR:
        if r.search(msg):
            return k
    return "Other"


def err_obs(e):
    c = exc_class(e)
    if c in ("RuntimeError", "Sorry"):
        return ["err", c, err_kind(str(e))]
    return ["err", c, ""]


def model_err_obs(reply):
    """reply from sx_res: ['uerr', kind, tok, line] | ['crash', cls]"""
    if reply[0] == "uerr":
        return ["err", "Sorry" if reply[1] in SORRY_KINDS else "RuntimeError", reply[1]]
    return ["err", "other:" + reply[1], ""]


def reraise_control(e):
    if isinstance(e, (vlib.Timeout, KeyboardInterrupt, MemoryError, RecursionError)):
        raise e


# ----------------------------------------------------------------------------- oracles
class CanonRecorder:
    """Records every X.extract_format(source=Y) call as (wire(X), wire(Y) or [], outcome of as_str)."""

    def __init__(self):
        import freephil.common as C

        self.C = C
        self.entries = {}
        self.orig = {}

    def _wrap(self, cls):
        orig = cls.extract_format
        self.orig[cls] = orig
        rec = self

        def extract_format(self_, source=None):
            key = [obj_sx(self_), obj_sx(source) if source is not None else []]
            jkey = json.dumps(canon(key))
            try:
                r = orig(self_, source=source)
                text = r.as_str()
            except BaseException as e:  # noqa
                reraise_control(e)
                c = exc_class(e)
                if c in ("RuntimeError", "Sorry"):
                    out = ["uerr", err_kind(str(e)), "", 0]
                else:
                    out = ["crash", type(e).__name__]
                rec._put(jkey, key, out)
                raise
            rec._put(jkey, key, ["ok", text])
            return r

        cls.extract_format = extract_format

    def _put(self, jkey, key, out):
        old = self.entries.get(jkey)
        if old is not None and old[2] != out:
            raise vlib.HarnessError("canon oracle is not a function of its key: %r vs %r" % (old[2], out))
        self.entries[jkey] = [key[0], key[1], out]

    def __enter__(self):
        self.entries = {}
        self._wrap(self.C.definition)
        self._wrap(self.C.scope)
        return self

    def __exit__(self, *a):
        for cls, f in self.orig.items():
            cls.extract_format = f
        self.orig = {}

    def table(self):
        return [self.entries[k] for k in sorted(self.entries)]


@contextlib.contextmanager
def patched_environ(env, universe):
    """Temporarily make os.environ agree with [env] on every name of [universe]."""
    saved = {}
    names = set(universe) | set(env)
    for k in names:
        saved[k] = os.environ.get(k)
    try:
        for k in names:
            if k in env:
                os.environ[k] = env[k]
            elif k in os.environ:
                del os.environ[k]
        yield
    finally:
        for k, v in saved.items():
            if v is None:
                os.environ.pop(k, None)
            else:
                os.environ[k] = v


_VAR_RE = re.compile(r"\$\(([^)]*)\)|\$([A-Za-z_][A-Za-z_0-9.]*)")


def var_names(texts):
    out = set()
    for t in texts:
        for m in _VAR_RE.finditer(t):
            n = m.group(1) if m.group(1) is not None else m.group(2)
            n = n.lstrip(".")          # "$(.s.x)" is anchored at the root
            out.add(n)
            out.add(n.split(".")[0])
    return {n for n in out if n and "=" not in n and "\0" not in n}


# ----------------------------------------------------------------------------- tree helpers (canonical wire trees)
def t_name(t):
    return t[1][0]


def t_dis(t):
    return t[1][1] == "1"


def t_tmpl(t):
    return t[1][2]


def t_attr(t, name):
    for n, v in t[3]:
        if n == name:
            return v
    return None


def t_truthy(v):
    """Python truthiness of an attribute value in wire form (None = absent)."""
    if v is None:
        return False
    if v[0] == "bool":
        return v[1] == "1"
    if v[0] == "int":
        return v[1] != "0"
    if v[0] == "str":
        return v[1] != ""
    return True


def t_multiple(t):
    return t_truthy(t_attr(t, "multiple"))


def t_deprecated(t):
    return t[0] == "def" and t_truthy(t_attr(t, "deprecated"))


def t_mandatory(t):
    v = t_attr(t, "optional")
    return v is not None and not t_truthy(v)


def strip_disabled_objs(scope):
    """Remove every disabled object from a parsed scope, recursively (in place); returns the scope."""
    scope.objects = [o for o in scope.objects if not o.is_disabled]
    for o in scope.objects:
        if o.is_scope:
            strip_disabled_objs(o)
    return scope


def has_dollar(texts):
    return any("$" in t for t in texts)


# ----------------------------------------------------------------------------- one fetch step on the implementation
def unused_obs(locs):
    return ["ok", canon([[l.path, where_line(l.object.where_str)] for l in locs])]


def run_step(fp, master, sources, env, diff, track):
    """master: scope, sources: list of scopes.  Returns (observation, request argument, result scope or None)."""
    mtree = objs_sx(master)
    strees = [objs_sx(s) for s in sources]
    rec = CanonRecorder()
    result = None
    with rec, warnings.catch_warnings():
        warnings.simplefilter("ignore")
        try:
            r = master.fetch(sources=sources, track_unused_definitions=bool(track), diff=bool(diff))
            if track:
                result, unused = r
                obs = ["ok", canon(objs_sx(result)), unused_obs(unused)]
            else:
                result = r
                obs = ["ok", canon(objs_sx(result)), ["none"]]
        except BaseException as e:  # noqa
            reraise_control(e)
            obs = err_obs(e)
    req = [mtree, strees, [list(kv) for kv in env], rec.table(), bool(diff), bool(track)]
    return obs, req, result


def model_step_obs(reply):
    if reply[0] == "ok":
        tree, un = reply[1]
        if un[0] == "unmodelled":
            return ["ok", tree, "UNMODELLED"]
        if un[0] == "none":
            return ["ok", tree, ["none"]]
        return ["ok", tree, ["ok", un[1]]]
    if reply[0] == "uerr" and reply[1] == "Unmodelled":
        return "UNMODELLED"
    if reply[0] in ("uerr", "crash"):
        return model_err_obs(reply)
    return ["bad-reply", reply]


# ----------------------------------------------------------------------------- stream base class
class FetchStream(Stream):
    """A case is run as a plan: a list of steps
         {"master": ref, "sources": [ref, ...], "diff": bool, "track": bool}
       ref = "m"            the master parsed from case["m"]
             "md"           a fresh parse of the master with every disabled object removed
             ["s", i]       source i parsed from case["s"][i] (one object per case: marks persist over steps)
             ["sd", i]      a fresh parse of source i with every disabled object removed
             ["t", text]    a fresh parse of a literal text
             ["w", i]       source i spliced under the master's first scope name as an include inside a scope would do
             ["r", j]       the result scope of step j (the object itself)
             ["p", j]       step j's result printed with as_str() and parsed again
       Every step is one model request whose inputs are the implementation's own objects at that
       moment, so the model is compared step by step.  Subclasses override plan(), prop(), cases()."""

    cluster = "Fetch"
    impl_timeout = 10.0

    def __init__(self, ctx):
        super().__init__(ctx)
        self.fp = import_freephil()
        self.stash = {}

    # -- what to run
    def plan(self, case):
        return [{"master": "m", "sources": [["s", i] for i in range(len(case["s"]))],
                 "diff": bool(case.get("diff")), "track": False}]

    # -- implementation
    def _resolve(self, ref, case, env_objs, results):
        if ref == "m":
            return env_objs["m"]
        if ref == "md":
            return strip_disabled_objs(self.fp.parse(input_string=case["m"]))
        k, v = ref
        if k == "s":
            return env_objs["s"][v]
        if k == "sd":
            return strip_disabled_objs(self.fp.parse(input_string=case["s"][v]))
        if k == "t":
            return self.fp.parse(input_string=v)
        if k == "w":
            # source v spliced under a scope the way "include file" inside a scope does it: the objects of a separately
            # parsed document become the children of the scope and keep their own parent links (no "$" in such sources)
            if has_dollar(case["s"]):
                return None
            inner = self.fp.parse(input_string=case["s"][v])
            name = next((o.name for o in env_objs["m"].objects if o.is_scope and not o.is_disabled and "." not in o.name), "zz")
            outer = self.fp.parse(input_string="%s {\n}\n" % name)
            outer.objects[0].objects = list(inner.objects)
            return outer
        if k == "r":
            return results[v]
        if k == "p":
            return None if results[v] is None else self.fp.parse(input_string=results[v].as_str())
        raise vlib.HarnessError("bad ref %r" % (ref,))

    def impl(self, case):
        fp = self.fp
        try:
            objs = {"m": fp.parse(input_string=case["m"]), "s": [fp.parse(input_string=t) for t in case["s"]]}
        except BaseException as e:  # noqa
            reraise_control(e)
            self.stash[self.ckey(case)] = []
            return ["badcase", exc_class(e)]
        env = dict((k, v) for k, v in case.get("env", []))
        universe = var_names([case["m"]] + list(case["s"]))
        obs, reqs, results = [], [], []
        with patched_environ(env, universe):
            for step in self.plan(case):
                try:
                    master = self._resolve(step["master"], case, objs, results)
                    sources = [self._resolve(r, case, objs, results) for r in step["sources"]]
                except BaseException as e:  # noqa
                    reraise_control(e)
                    master, sources = None, [None]
                if master is None or any(s is None for s in sources):
                    obs.append(["skipped"])
                    reqs.append(None)
                    results.append(None)
                    continue
                o, rq, res = run_step(fp, master, sources, sorted(env.items()), step["diff"], step["track"])
                obs.append(o)
                reqs.append(None if step.get("impl_only") else rq)     # impl_only: judged by the oracle alone (object identity matters)
                results.append(res)
        self.stash[self.ckey(case)] = reqs
        return obs

    def ckey(self, case):
        return json.dumps(case, sort_keys=True)

    def _dup_master(self, text):
        """True if some scope of the master has two active siblings of one name (masters that declare a parameter
        twice are compared with the model as parsed masters only)."""
        cache = self.__dict__.setdefault("_dupcache", {})
        r = cache.get(text)
        if r is None:
            def dup(objs):
                first = {}
                for o in objs:
                    if o.is_disabled:
                        continue
                    f = first.setdefault(o.name, o)
                    if f is not o:
                        return True
                    if o.is_scope and dup(o.objects):
                        return True
                return False
            try:
                r = dup(self.fp.parse(input_string=text).objects)
            except BaseException as e:  # noqa
                reraise_control(e)
                r = True
            cache[text] = r
        return r

    # -- model
    def requests(self, case, impl_obs):
        reqs = self.stash.get(self.ckey(case), [])
        return [("fetch", r) for r in reqs if r is not None]

    def model(self, case, replies, impl_obs):
        if impl_obs and impl_obs[0] == "badcase":
            return impl_obs
        if not isinstance(impl_obs, list) or (impl_obs and impl_obs[0] in ("impl-timeout", "impl-exception")):
            return ["model-has-no-opinion"]
        out = []
        it = iter(replies)
        unmodelled = False
        steps = self.plan(case)
        for idx, o in enumerate(impl_obs):
            if o == ["skipped"] or (idx < len(steps) and steps[idx].get("impl_only")):
                out.append(o)
                continue
            rep = next(it)
            if idx < len(steps) and steps[idx].get("lenient_oracle") and self._dup_master(case["m"]):
                # a fetch result re-used as the master: compared with the model for masters with unique sibling names only
                # (a master declaring one name twice has no agreed meaning once it holds templates and instances)
                out.append(o)
                continue
            m = model_step_obs(rep)
            if m == "UNMODELLED":
                unmodelled = True
            elif m[0] == "ok" and m[2] == "UNMODELLED":
                # the unused list is outside the model (a "$" in the sources): compare the tree only
                m = ["ok", m[1], o[2] if o[0] == "ok" else ["none"]]
            out.append(m)
        return "UNMODELLED" if unmodelled else out

    # -- bookkeeping
    def key(self, case, o):
        return self.ckey(case) if case["s"] else None

    def tag(self, case, o):
        if not isinstance(o, list) or not o:
            return "other"
        first = o[0]
        if first == "badcase" or not isinstance(first, list):
            return str(first)
        t = case.get("kind", "gen")
        if first[0] == "err":
            return "%s:err:%s" % (t, first[2] or first[1])
        return "%s:ok:%d-sources" % (t, len(case["s"]))

    def shrink(self, case):
        # drop a source, drop a line of a source, drop a line of the master
        for i in range(len(case["s"])):
            c = dict(case)
            c["s"] = case["s"][:i] + case["s"][i + 1:]
            yield c
        for i, t in enumerate(case["s"]):
            for v in shrink_lines(t):
                c = dict(case)
                c["s"] = case["s"][:i] + [v] + case["s"][i + 1:]
                yield c
        for v in shrink_lines(case["m"]):
            c = dict(case)
            c["m"] = v
            yield c
        if case.get("env"):
            c = dict(case)
            c["env"] = []
            yield c


def shrink_lines(text):
    """Variants of a PHIL text with one balanced chunk of lines removed (keeps braces balanced)."""
    lines = text.split("\n")
    n = len(lines)
    for i in range(n):
        if not lines[i].strip():
            continue
        depth = lines[i].count("{") - lines[i].count("}")
        j = i
        while depth > 0 and j + 1 < n:
            j += 1
            depth += lines[j].count("{") - lines[j].count("}")
        if depth != 0:
            continue
        # a definition takes its attribute lines along
        while j + 1 < n and lines[j + 1].strip().startswith(".") and "{" not in lines[i]:
            j += 1
        yield "\n".join(lines[:i] + lines[j + 1:])


# ----------------------------------------------------------------------------- generators
NAMES = ["a", "b", "c", "d", "s", "t", "u"]
ALTS = ["x", "y", "z"]

# per type: (.type text or None, master defaults, good source values, bad source values)
TYPES = {
    "words": ([None], ["1", "a b", '"b c"', "None", "Auto", "x y z"], ["2", "q", '"r s"', "None", "a b", "Auto", "1"], []),
    "str": (["str"], ["abc", "None", "Auto", '"a b"', "x y", '""'], ["abc", "def", '"a b"', "None", "Auto", "p q", "x y", '""', '"\\\\"', '"None"'], []),
    "strings": (["strings"], ["a b", '"a b" c', "None", "Auto"], ["a b", "c", '"a b" c', "None", "Auto", "a  b"], []),
    "qstr": (["qstr"], ["a b", '"a b"', "None", "Auto"], ["a b", '"a b"', "c", "None", "Auto", "'a b'"], []),
    "path": (["path"], ["p/q", '"a b"', "None", "Auto"], ["p/q", "r", '"a b"', "None", "Auto", "p/q"], []),
    "key": (["key"], ["k", "a.b", "None", "Auto"], ["k", "j", "a.b", "None", "Auto"], ["a b"]),
    "bool": (["bool"], ["True", "False", "yes", "no", "None", "Auto", "1", "0"],
             ["True", "False", "yes", "no", "true", "1", "0", "None", "Auto"], ["maybe", "2", "a b"]),
    "int": (["int", "int(value_min=0)", "int(value_min=-2, value_max=9)", "int(allow_none=False)"],
            ["0", "1", "5", "7", "None", "Auto", "3*2"], ["0", "1", "5", "7", "None", "Auto", "1+4", "05"],
            ["1.5", "x", "-5", "99", "1 2"]),
    "ints": (["ints", "ints(size=2)", "ints(size_min=1, size_max=3)", "ints(value_min=0)", "ints(allow_none_elements=True)"],
             ["1 2", "1,2", "3", "None", "Auto"], ["1 2", "1,2", "2 1", "3", "None", "Auto", "1 None", "[1,2]", '""', "()"],
             ["x", "1 2 3 4", "-4 1", "1.5 2"]),
    "choice": (["choice"], ["x y z", "*x y z", "x *y z", "x y *z"],
               ["y", "*y", "x", "*z", "x *y", "*x y z", "None", "Auto", "X", "x y z"], ["w", "*w", "*x *y", "x+y"]),
    "mchoice": (["choice(multi=True)"], ["x y z", "*x y z", "*x *y z", "x *y *z"],
                ["y", "*y", "x+y", "*x *z", "x *y", "*x y *z", "None", "Auto", "X+z", "x y z", "+y", "+x+z", "z+"], ["w", "*w", "x+w"]),
    "float": (["float", "float(value_min=0)", "float(value_max=10, allow_none=False)"],
              ["1.5", "2", "1e3", "None", "Auto", "0.1"], ["1.5", "2", "2.0", "1e3", "None", "Auto", "1/4", "0.10"],
              ["x", "-3", "1 2"]),
    "floats": (["floats", "floats(size=2)", "floats(value_min=0)"], ["1.5 2", "1,2", "None", "Auto"],
               ["1.5 2", "1.50 2", "3", "None", "Auto", "1 2", '""'], ["x", "1 2 3", "-1 1"]),
}
PLAIN_TYPES = ["words", "str", "strings", "qstr", "path", "key", "bool", "int", "ints", "choice", "mchoice"]
FLOAT_TYPES = ["float", "floats", "int", "str"]


def gen_master_items(rng, depth, budget, floats=False, dup=True):
    """Structured master: ["d", name, disabled, attrs, value, tkey] | ["s", name, disabled, attrs, items]"""
    items = []
    n = rng.randint(1, 4 if depth == 0 else 3)
    used = []
    for _ in range(n):
        if budget[0] <= 0:
            break
        budget[0] -= 1
        force_kind = None
        if dup and used and rng.random() < 0.08:
            name = rng.choice(used)          # deliberately duplicated sibling name, mostly of the same kind
            if rng.random() < 0.7:
                force_kind = [it[0] for it in items if it[1] == name][0]
        else:
            free = [x for x in NAMES if x not in used] or NAMES
            name = rng.choice(free)
        used.append(name)
        dis = 1 if rng.random() < 0.09 else 0
        attrs = {}
        if rng.random() < 0.30:
            attrs["multiple"] = "True" if rng.random() < 0.9 else "False"
        if rng.random() < 0.35:
            attrs["optional"] = rng.choice(["True", "False", "False", "None"])
        if rng.random() < 0.12:
            attrs["expert_level"] = rng.choice(["0", "1", "2", "3"])
        if rng.random() < 0.08:
            attrs["help"] = rng.choice(['"some help"', "h", '"two  blanks\tand a tab"', '" lead and trail "', '"first line\n   second line"'])
        want_scope = depth < 2 and rng.random() < (0.34 if depth == 0 else 0.28)
        if force_kind is not None:
            want_scope = force_kind == "s" and depth < 2
        if want_scope:
            if rng.random() < 0.12:
                # attributes only scopes have: they travel with every copy fetch makes of the scope
                attrs = dict(attrs)
                for a, v in (("sequential_format", '"%s_%%d"' % name), ("disable_add", "True"), ("disable_delete", "False")):
                    if rng.random() < 0.6:
                        attrs[a] = v
            item = ["s", name, dis, attrs, gen_master_items(rng, depth + 1, budget, floats, dup)]
        else:
            tkey = rng.choice(FLOAT_TYPES if floats else PLAIN_TYPES)
            ttexts, defaults, _, _ = TYPES[tkey]
            if rng.random() < 0.07:
                attrs["deprecated"] = "True"
            ttext = rng.choice(ttexts)
            if ttext is not None:
                attrs["type"] = ttext
            item = ["d", name, dis, attrs, rng.choice(defaults), tkey]
        items.append(item)
        # further master occurrences of a multiple (and, rarely, of anything)
        if dup and attrs.get("multiple") == "True" and rng.random() < 0.35 and budget[0] > 0:
            budget[0] -= 1
            if item[0] == "d":
                items.append(["d", name, 1 if rng.random() < 0.1 else 0, dict(attrs), rng.choice(TYPES[item[5]][2]), item[5]])
            else:
                items.append(["s", name, 0, dict(attrs), gen_master_items(rng, depth + 1, budget, floats, dup)
                              if rng.random() < 0.5 else mutate_values(rng, item[4])])
        # naming coincidences: next to a scope P with a child Q, parameters named P_Q, PxQ, P0Q (prefix + one
        # joining character + child name), PQ, Pq (the scope name as a bare prefix), at every depth.  A path
        # matcher that forgets the "." after the scope name confuses them with P.Q.
        if item[0] == "s" and item[4] and not dis and rng.random() < 0.45:
            q = rng.choice(item[4])
            forms = [name + "_" + q[1], name + "x" + q[1], name + "0" + q[1], name + q[1], name + "q", name + "_z" + q[1]]
            rng.shuffle(forms)
            twins = []
            for form in forms[: rng.randint(1, 3)]:
                if form in used or form in NAMES:
                    continue
                used.append(form)
                if q[0] == "d":
                    tw_attrs = {k: v for k, v in q[3].items() if k in ("type", "multiple", "optional")}
                    twins.append(["d", form, 0, tw_attrs, rng.choice(TYPES[q[5]][1]), q[5]])
                else:
                    twins.append(["d", form, 0, {}, rng.choice(TYPES["words"][1]), "words"])
            if rng.random() < 0.5:
                items[-1:-1] = twins          # before the scope
            else:
                items.extend(twins)
    return items


def mutate_values(rng, items):
    out = []
    for it in items:
        if it[0] == "d":
            v = rng.choice(TYPES[it[5]][2]) if rng.random() < 0.6 else it[4]
            out.append(["d", it[1], it[2], dict(it[3]), v, it[5]])
        else:
            out.append(["s", it[1], it[2], dict(it[3]), mutate_values(rng, it[4])])
    return out


ATTR_ORDER = ["help", "optional", "type", "multiple", "expert_level", "deprecated", "sequential_format", "disable_add", "disable_delete"]


def render_master(items, ind=""):
    out = []
    for it in items:
        pre = "!" if it[2] else ""
        if it[0] == "d":
            out.append("%s%s%s = %s\n" % (ind, pre, it[1], it[4]))
            for a in ATTR_ORDER:
                if a in it[3]:
                    out.append("%s  .%s = %s\n" % (ind, a, it[3][a]))
        else:
            out.append("%s%s%s\n" % (ind, pre, it[1]))
            for a in ATTR_ORDER:
                if a in it[3] and a not in ("type", "deprecated"):
                    out.append("%s  .%s = %s\n" % (ind, a, it[3][a]))
            out.append("%s{\n" % ind)
            out.append(render_master(it[4], ind + "  "))
            out.append("%s}\n" % ind)
    return "".join(out)


def master_paths(items, prefix=()):
    """[(components, item)] for every master object (disabled ones too), document order."""
    out = []
    for it in items:
        p = prefix + (it[1],)
        out.append((p, it))
        if it[0] == "s":
            out.extend(master_paths(it[4], p))
    return out


VAR_FORMS = ["$%s", "$(%s)", "x$(%s)", '"$%s"', "'$%s'", "$%s.5", "$(%s) 1"]


def twin_paths(p, p2):
    """(.., P, Q) and (.., P<c>Q) / (.., PQ) / (.., P<anything>): same parent, one name a proper prefix of the other's"""
    a, b = (p, p2) if len(p) > len(p2) else (p2, p)
    return len(a) == len(b) + 1 and a[:-2] == b[:-1] and b[-1] != a[-2] and b[-1].startswith(a[-2])


PROFILES = {
    # cumulative thresholds: repeat, hit, misspelt, wrongly nested, clash, unknown scope, empty scope instance, (rest: variable)
    "shape": [0.10, 0.66, 0.75, 0.82, 0.845, 0.89, 0.94],
    "unused": [0.10, 0.48, 0.66, 0.80, 0.815, 0.90, 0.94],
}


def gen_assignments(rng, paths, nvars, profile="shape"):
    """A source as a list of assignments [components, value or None (scope), disabled, disabled prefix depth]."""
    T = PROFILES[profile]
    out = []
    defs = [(p, it) for p, it in paths if it[0] == "d"]
    scopes = [(p, it) for p, it in paths if it[0] == "s"]
    n = rng.randint(0, 5)
    for _ in range(n):
        r = rng.random()
        dis = 1 if rng.random() < 0.08 else 0
        disup = rng.randint(1, 2) if rng.random() < 0.05 else 0
        if out and r < T[0]:
            p, v, _, _ = rng.choice(out)            # repeated
            if v is not None and rng.random() < 0.5:
                v = rng.choice(["1", "x", "None", v])
            out.append([list(p), v, dis, disup])
            continue
        if defs and r < T[1]:
            p, it = rng.choice(defs)
            _, _, good, bad = TYPES[it[5]]
            q = rng.random()
            v = rng.choice(bad) if (bad and q < 0.10) else rng.choice(good) if q < 0.9 else rng.choice(["1", "a b", "None", "q"])
            out.append([list(p), v, dis, disup])
            # the counterpart of a naming coincidence (P.Q next to P_Q / PxQ / PQ ...), before or after
            if rng.random() < 0.5:
                twins = [(p2, i2) for p2, i2 in defs if p2 != p and twin_paths(p, p2)]
                if twins:
                    p2, i2 = rng.choice(twins)
                    entry = [list(p2), rng.choice(TYPES[i2[5]][2]), 0, 0]
                    if rng.random() < 0.5:
                        out.append(entry)
                    else:
                        out.insert(len(out) - 1, entry)
            # a multiple scope's instance: set some siblings in the same block
            if len(p) > 1 and rng.random() < 0.4:
                sib = [(p2, i2) for p2, i2 in defs if p2[:-1] == p[:-1] and p2 != p]
                for p2, i2 in sib[:rng.randint(0, 2)]:
                    out.append([list(p2), rng.choice(TYPES[i2[5]][2]), 0, 0])
        elif defs and r < T[2]:                      # misspelt
            p, it = rng.choice(defs)
            p = list(p)
            i = rng.randrange(len(p))
            p[i] = rng.choice([p[i] + "x", "zz", "q" + p[i]])
            out.append([p, rng.choice(["1", "x", "None"]), dis, disup])
        elif defs and r < T[3]:                      # wrongly nested (never onto another master path's kind clash by design: extra unknown level)
            p, it = rng.choice(defs)
            p = list(p)
            if len(p) > 1 and rng.random() < 0.4:
                del p[rng.randrange(len(p) - 1)]
            else:
                p.insert(rng.randrange(len(p)), rng.choice(["zz", "q", "q", rng.choice(NAMES)]))
            out.append([p, rng.choice(TYPES[it[5]][2]), dis, disup])
        elif r < T[4] and (defs or scopes):           # scope / definition clash
            if scopes and rng.random() < 0.5:
                p, it = rng.choice(scopes)
                out.append([list(p), rng.choice(["1", "x"]), dis, disup])         # a value given to a scope
            elif defs:
                p, it = rng.choice(defs)
                out.append([list(p) + [rng.choice(NAMES)], "1", dis, disup])      # a scope where a definition is
        elif r < T[5]:                                # unknown scope block
            out.append([[rng.choice(["zz", "q"]), rng.choice(NAMES)], rng.choice(["1", "x"]), dis, disup])
        elif r < T[6] and scopes:                     # empty scope instance
            p, it = rng.choice(scopes)
            out.append([list(p), None, dis, disup])
        elif defs and nvars:                          # $variable
            p, it = rng.choice(defs)
            var = rng.choice(["v", "w", "v", rng.choice(NAMES)])
            out.append([list(p), rng.choice(VAR_FORMS) % var, dis, disup])
    return out


def place(rng, items, comps, value, dis, disup, depth=0):
    """Insert one assignment into the source tree, choosing dotted / nested spelling and block merging."""
    j = rng.randint(1, len(comps))
    name = ".".join(comps[:j])
    if j == len(comps):
        if value is None:
            items.append(["s", name, dis, []])
        else:
            items.append(["d", name, dis, value])
        return
    if items and items[-1][0] == "s" and items[-1][1] == name and not items[-1][2] and rng.random() < 0.55:
        place(rng, items[-1][3], comps[j:], value, dis, disup, depth + 1)
        return
    blk = ["s", name, 1 if disup == depth + 1 else 0, []]
    items.append(blk)
    place(rng, blk[3], comps[j:], value, dis, disup, depth + 1)


def render_source(items, ind=""):
    out = []
    for it in items:
        pre = "!" if it[2] else ""
        if it[0] == "d":
            out.append("%s%s%s = %s\n" % (ind, pre, it[1], it[3]))
        else:
            out.append("%s%s%s {\n" % (ind, pre, it[1]))
            out.append(render_source(it[3], ind + "  "))
            out.append("%s}\n" % ind)
    return "".join(out)


VAR_TARGETS = [["v"], ["s", "x"], ["t", "y"], ["s", "t", "z"], ["vs", "x"], ["vs", "t", "z"]]
REF_FORMS = ["$(%s)", "$(%s)", "$(.%s)", "$%s", "x$(%s)", '"$(%s)"', "$(%s) 1",
             # an escaped dollar next to a reference in one word: the backslash stays in the result (it is what protects the
             # dollar when the result is fetched again)
             '"$(%s)/run \\$x/out"', 'pre\\$y$(%s)', '"\\$5 and $(%s)"']


def var_target_item(rng, comps, value, disabled):
    """One candidate for the variable path [comps]: a definition, a brace-style scope chain or a dotted name;
    disabled = None | "def" | "scope" (outermost scope / the dotted head) | "inner" (an inner scope)."""
    if len(comps) == 1:
        return ["d", comps[0], 1 if disabled else 0, value]
    style = rng.choice(["brace", "brace", "dotted", "mixed"]) if len(comps) > 2 else rng.choice(["brace", "brace", "dotted"])
    if style == "dotted":
        # "!s.x = 5": the definition is disabled inside enabled prefix scopes
        return ["d", ".".join(comps), 1 if disabled else 0, value]
    if style == "mixed":
        # "!s.t { z = 5 }": the inner scope t is disabled inside an enabled prefix scope s
        head = ".".join(comps[:-1])
        return ["s", head, 1 if disabled in ("scope", "inner") else 0, [["d", comps[-1], 1 if disabled == "def" else 0, value]]]
    item = ["d", comps[-1], 1 if disabled == "def" else 0, value]
    for i in range(len(comps) - 2, -1, -1):
        dis = 1 if ((disabled == "scope" and i == 0) or (disabled == "inner" and i == len(comps) - 2)) else 0
        item = ["s", comps[i], dis, [item]]
    return item


def gen_var_group(rng, paths):
    """Candidates for one variable path followed by a consumed definition that refers to it: disabled scopes
    (brace and dotted-name style) and disabled definitions BEFORE the reference, as the only candidate or as
    the nearer candidate shadowing an enabled earlier one; at top level or nested inside the master scope
    that holds the referring definition.  Returns source items."""
    defs = [(p, it) for p, it in paths if it[0] == "d"]
    if not defs:
        return []
    p, it = rng.choice(defs)
    deep = [(q, j) for q, j in defs if len(q) >= 2]
    targets = list(VAR_TARGETS) + [list(q) for q, _ in deep[:3]]
    comps = rng.choice(targets)
    pattern = rng.choice([["D"], ["E", "D"], ["E", "D"], ["D", "E"], ["D", "D"], ["E"], ["E", "D", "D"], ["D", "E", "D"]])
    cands = []
    for n, kind in enumerate(pattern):
        disabled = None
        if kind == "D":
            disabled = rng.choice(["def", "scope", "scope", "inner"]) if len(comps) > 1 else "def"
        cands.append(var_target_item(rng, comps, rng.choice(["1", "2", "x", "y", "True"]) if n else rng.choice(["3", "z", "False"]), disabled))
    ref = rng.choice(REF_FORMS) % ".".join(comps)
    nested = len(p) >= 2 and rng.random() < 0.35
    if nested:
        # everything inside the master scope that holds the referring definition (relative lookup searches upward)
        block = cands + [["d", p[-1], 0, ref]]
        for name in reversed(p[:-1]):
            block = [["s", name, 0, block]]
        if rng.random() < 0.4:
            # an enabled candidate at top level as well: the nested disabled one must not shadow it
            block = [var_target_item(rng, comps, "9", None)] + block
        return block
    items = list(cands)
    place(rng, items, list(p), ref, 0, 0)
    return items


def gen_source(rng, paths, nvars, profile="shape"):
    items = []
    if nvars:
        # variable definitions the assignments may refer to (possibly disabled)
        for v in ["v", "w"][: rng.randint(0, 2)]:
            items.append(["d", v, 1 if rng.random() < 0.25 else 0, rng.choice(["3", "x y", "True", "$w", "y"])])
        if items and rng.random() < 0.3:
            # a reference whose dotted path runs THROUGH a definition (the name of an earlier definition as its first component)
            items.append(["d", rng.choice(["w", "zv"]), 0, rng.choice(["$(%s.k)", "$%s.k", "x$(%s.k.j)"]) % items[0][1]])
        if rng.random() < 0.6:
            items.extend(gen_var_group(rng, paths))
    for comps, value, dis, disup in gen_assignments(rng, paths, nvars, profile):
        place(rng, items, comps, value, dis, disup)
    if nvars and rng.random() < 0.25:
        items.extend(gen_var_group(rng, paths))
    return render_source(items)


def gen_case(rng, floats=False, variables=None, max_sources=4, dup=True, profile="shape"):
    budget = [rng.randint(2, 11)]
    m = gen_master_items(rng, 0, budget, floats=floats, dup=dup)
    paths = master_paths(m)
    if variables is None:
        variables = rng.random() < 0.12
    ns = rng.choice([0, 1, 1, 1, 2, 2, 3, 4][: 4 + max_sources])
    srcs = [gen_source(rng, paths, variables, profile) for _ in range(ns)]
    env = []
    if variables and rng.random() < 0.5:
        env = sorted([k, rng.choice(["E", "1", "e v"])] for k in set(rng.choice(["v", "w", "a"]) for _ in range(rng.randint(1, 2))))
    kind = "float" if floats else "var" if variables else "plain"
    return {"m": render_master(m), "s": srcs, "env": env, "diff": 0, "kind": kind}


COMMON_TRUSTED = [
    "Modelled (Model/Fetch.v): scope.fetch (both branches, diff, the multiple double loop with its processed_as_str / "
    "template logic), master_active_objects, get_without_substitution with positions, definition.fetch / fetch_value / "
    "fetch_diff, customized_copy / copy, assign_tmp + all_definitions(select_tmp=False) as a set of consumed positions "
    "(incl. the marks variable substitution leaves on its sources); variable substitution via Model/Vars.v, choice "
    "fetch via Model/Choice.v.",
    "Oracle: canon = X.extract_format(source=Y).as_str(), recorded per call from the implementation run (wrappers on "
    "definition.extract_format / scope.extract_format) and looked up by the wire form of (X, Y); a missing key is reported "
    "as an internal error of the model, never as agreement.  Oracle: os.environ for the names the texts can look up.",
    "freephil.parse builds the master and source trees handed to both sides (input, not modelled here).",
]
