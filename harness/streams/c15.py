"""C15 - reported source lines are the lines where things actually are."""
import json

import layout as L
import parse_common as pc
import vlib
from vlib import Stream, import_freephil


def line_view(obs):
    if obs == "UNMODELLED":
        return obs
    if obs[0] == "ok":
        return ["ok", [x for t in obs[1] for x in L.lines_only(vlib.strip_tree(t, keep_line=True))]]
    return ["err", obs[1] if obs[1].startswith("other") else "user", obs[2], obs[3]]


class Lines(Stream):
    name = "lines"
    cluster = "Parse"

    def __init__(self, ctx):
        super().__init__(ctx)
        self.fp = import_freephil()
        self.oracles = {}

    def corpus(self):
        return [
            # formerly F5a (repaired): blank/bare '#phil' lines inside an off region must not shift line numbers
            {"text": "#phil __OFF__\n#phil  \n\n#phil __ON__\nn = v\n", "lines": [["n", "5"], ["v", "5"]], "err": None},
            {"text": "a = 'x\ny'\n\nb = \"unclosed\n\n", "lines": None, "err": ["MissingClosingQuote", "6"]},
        ]

    def cases(self, rng, tier):
        for _ in range(1500 if tier == "quick" else 30000):
            at = L.gen_atree(rng)
            text, exp, _ = L.render(rng, at, stage_b=True)
            lines = [x for t in exp for x in L.lines_only(t)]
            yield {"text": text, "lines": lines, "err": None}
            # malformed variants with a known faulty token (not after a '#phil __END__', which cuts the input)
            if "__END__" in text:
                continue
            k = rng.randrange(6)
            nl = text.count("\n")
            if not text.endswith("\n"):
                text += "\n"; nl += 1
            if k == 0:
                yield {"text": text + "zz = \"never closed\n\n x", "lines": None, "err": ["MissingClosingQuote", str(nl + 3)]}
            elif k == 1:
                yield {"text": text + "\nzz 1\n", "lines": None, "err": ["SyntaxExpected", str(nl + 2)]}
            elif k == 2:
                yield {"text": text + "\n\nsc {\n a = 1\n", "lines": None, "err": ["NoMatchingBrace", str(nl + 3)]}
            elif k == 3:
                yield {"text": text + "zz = 1\n  .optional = maybe\n", "lines": None, "err": ["NotBool", str(nl + 2)]}
            elif k == 4:
                yield {"text": text + "\nzz = \n;", "lines": None, "err": ["MissingValue", str(nl + 2)]}
            else:
                yield {"text": text + "a = 1\n\n  .bogus = 2\n", "lines": None, "err": ["UnexpectedDefinitionAttribute", str(nl + 3)]}

    def impl(self, case):
        o, orc = pc.impl_parse(self.fp, case["text"])
        self.oracles[case["text"]] = orc
        return line_view(o)

    def requests(self, case, o):
        return [("parse", [self.oracles.get(case["text"], []), case["text"]])]

    def model(self, case, replies, o):
        return line_view(pc.model_parse_obs(replies[0]))

    def prop(self, case, o):
        if case["lines"] is not None:
            if o != ["ok", case["lines"]]:
                return "reported (name/word, line) %s, generator placed them at %s" % (json.dumps(o)[:300], json.dumps(case["lines"])[:300])
        else:
            kind, line = case["err"]
            if o[0] != "err" or o[1] != "user" or o[2] != kind or o[3] != line:
                return "error %s, expected %s at line %s" % (json.dumps(o), kind, line)
        return None

    def key(self, case, o):
        return case["text"]

    def tag(self, case, o):
        return "wellformed" if case["lines"] is not None else "malformed:" + case["err"][0]

    def shrink(self, case):
        for t in pc.shrink_text(case["text"]):
            yield {"text": t, "lines": case["lines"], "err": case["err"]}


class Labels(Stream):
    """The source label given to the parser (source_info=, or file_name= next to the text) appears in every location the
    unlabelled parse reports as "input line N": objects (also disabled ones), words, attribute errors, syntax errors.
    Oracle only (the model carries lines, not labels)."""
    name = "labels"
    cluster = "Parse"

    def __init__(self, ctx):
        super().__init__(ctx)
        self.fp = import_freephil()

    def cases(self, rng, tier):
        for c in Lines.cases(self, rng, "quick" if tier == "quick" else tier):
            yield c["text"]
            if tier == "quick" and rng.random() < 0.5:
                continue

    def wheres(self, **kw):
        try:
            t = self.fp.parse(**kw)
        except BaseException as e:  # noqa
            if isinstance(e, (KeyboardInterrupt, vlib.Timeout)):
                raise
            return ["err", vlib.exc_class(e), str(e)]
        out = []

        def walk(sc):
            for o in sc.objects:
                out.append("%s%s %s" % ("!" if o.is_disabled else "", o.name, o.where_str))
                if o.is_definition:
                    out.extend("  word %r%s" % (w.value, w.where_str()) for w in o.words)
                else:
                    walk(o)
        walk(t)
        return ["ok", out]

    def impl(self, case):
        import re
        base = self.wheres(input_string=case)
        for kw, lab in (({"source_info": "lbl.phil"}, "lbl.phil, line "), ({"file_name": "set.phil"}, 'file "set.phil", line ')):
            got = self.wheres(input_string=case, **kw)
            def relabel(x):
                return re.sub(r"input line (\d+)", lambda m: lab + m.group(1), x)
            if base[0] != got[0]:
                return ["differs", sorted(kw)[0], base[:2], got[:2]]
            if base[0] == "ok":
                want = [relabel(x) for x in base[1]]
                if want != got[1]:
                    i = next(i for i, (a, b) in enumerate(zip(want + [None], got[1] + [None])) if a != b)
                    return ["differs", sorted(kw)[0], (want + [None])[i], (got[1] + [None])[i]]
            elif (base[1], relabel(base[2])) != (got[1], got[2]):
                return ["differs", sorted(kw)[0], relabel(base[2])[:200], got[2][:200]]
        return ["ok"]

    def requests(self, case, o):
        return []

    def model(self, case, replies, o):
        return o

    def prop(self, case, o):
        if o[0] == "differs":
            return "with the label given as %s= a location reads %r, expected %r" % (o[1], o[3], o[2])
        return None

    def tag(self, case, o):
        return o[0]

    def shrink(self, case):
        return pc.shrink_text(case)


class SoupLines(Stream):
    """Arbitrary documents (token soup, mutated documents): every line number the implementation reports
    (objects, words, error) must be the one the model computes."""
    name = "soup_lines"
    cluster = "Parse"

    def __init__(self, ctx):
        super().__init__(ctx)
        self.fp = import_freephil()
        self.oracles = {}

    def corpus(self):
        # DOS line ends: a carriage return is a blank, and backslash + CR LF inside quotes is no continuation
        return ['a = "x\\\r\ny"\r\nn = 5\r\nm = oops\r\n', 'a = 1 \\\r\n 2\r\nb = 3\r\n', "a = 'p\r\nq' r\r\n{\r\n"]

    def cases(self, rng, tier):
        for i in range(2000 if tier == "quick" else 40000):
            r = i % 3
            if r == 0:
                t = pc.gen_soup(rng)
            elif r == 1:
                t = pc.mutate(rng, pc.gen_doc(rng, good=True))
            else:
                t = pc.gen_doc(rng, good=(i % 2 == 0))
            if i % 7 == 3:
                t = t.replace("\n", "\r\n")           # the same text with DOS line ends
            yield t

    def impl(self, case):
        o, orc = pc.impl_parse(self.fp, case)
        self.oracles[case] = orc
        return line_view(o)

    def requests(self, case, o):
        return [("parse", [self.oracles.get(case, []), case])]

    def model(self, case, replies, o):
        return line_view(pc.model_parse_obs(replies[0]))

    def prop(self, case, o):
        # lines are within the text, and object lines never decrease in document order at top level
        n = case.count("\n") + 1
        if o[0] == "ok":
            for name, line in o[1]:
                if not (1 <= int(line) <= n):
                    return "line %s outside the text (%d lines)" % (line, n)
        elif o[1] == "user" and int(o[3]) > n:
            return "error line %s outside the text (%d lines)" % (o[3], n)
        return None

    def tag(self, case, o):
        return o[0] if o[0] == "ok" else "err:" + o[2]

    def shrink(self, case):
        return pc.shrink_text(case)


from c02 import ScanForStart  # noqa: E402  (line counter of the off-region scanner)
from line_ends import FileLineEnds  # noqa: E402
from c11 import FetchDirect  # noqa: E402
from value_error_lines import ValueErrorLines  # noqa: E402


class ChoiceErrorLines(FetchDirect):
    """The 'Not a possible choice' report of choice_converters.fetch on value words that sit on different lines
    (a value continued over lines): the cited line is the line of the offending token, compared with the model
    (Model/Choice.v carries the line of the offending word) and with the words of the case."""
    name = "choice_error_lines"

    def cases(self, rng, tier):
        n = 4000 if tier == "quick" else 40000
        alts = ["a", "b", "cc", "x y"]
        for _ in range(n):
            mw = [[v, "n", 1] for v in alts[:rng.randint(1, 4)]]
            k = rng.randint(1, 5)
            line, sw = rng.randint(1, 3), []
            for _ in range(k):
                v = rng.choice(["a", "b", "*a", "*b", "cc", "zz", "*zz", "q", "a+b", "a+zz", "zz+q", "+", "A", "*CC"])
                sw.append([v, rng.choice("nnnn12"), line])
                line += rng.choice([0, 0, 1, 2])            # a continuation backslash moves the following words down
            yield [mw, sw, rng.random() < 0.5, rng.choice(["None", "True", "False"]), False]

    def prop(self, case, o):
        F = o[0] if isinstance(o, list) and o else None
        if not (isinstance(F, list) and F[:3] == ["err", "Sorry", "NotAChoice"] and len(F) >= 6):
            return None
        token, cited = F[3], F[5]
        lines = set(str(l) for v, q, l in case[1] if token in v)
        if cited not in lines:
            return "the error names token %r, which occurs on line(s) %s of the value, but cites line %s" % (
                token, sorted(lines), cited)
        return None

    def tag(self, case, o):
        F = o[0] if isinstance(o, list) and o else None
        return "notachoice" if isinstance(F, list) and F[:3] == ["err", "Sorry", "NotAChoice"] else "other"


from c03 import tok_obs, model_tok_obs  # noqa: E402


class ValidateLines(Stream):
    """definition.try_tokenize / validate on text typed into an entry field (GUI): the value may start on any line of the
    text; every word, the missing-quote error and the value error cite their line within that text.  Words and
    tokenizer errors are compared with the tokenizer model in value-literal mode; the value error with an oracle."""
    name = "validate_lines"
    cluster = "Tok"

    def __init__(self, ctx):
        super().__init__(ctx)
        self.fp = import_freephil()
        self.d_int = self.fp.parse("x = 1\n  .type = int\n").objects[0]
        # further typed definitions: validate() must return a proxy (or raise RuntimeError / Sorry) for every text
        self.others = self.fp.parse("b = True\n  .type = bool\nf = 1.5\n  .type = float(allow_none=False)\nc = *p q\n  .type = choice\n"
                                    "  .optional = False\nn = 1 2\n  .type = ints(size_max=3)\ns = t\n  .type = str\nw = u\n").objects

    def corpus(self):
        return ["\n\n12 apples", "\n \nfirst \\\n second", "\n'open", "  \n\t\n 5", "", "\n\n"]

    def cases(self, rng, tier):
        words = ["5", "12 apples", "oops", "'q r'", "\"a\nb\"", "x \\\n y", "'open", "\"\"\"t\n", "1+", "None", "#c", ";"]
        for _ in range(1500 if tier == "quick" else 20000):
            lead = "".join(rng.choice(["\n", "\n", " ", "\t", " \n", "\r\n"]) for _ in range(rng.randint(0, 5)))
            body = " ".join(rng.choice(words) for _ in range(rng.randint(0, 3)))
            yield lead + body + rng.choice(["", "\n", " \n\n"])

    def impl(self, case):
        d = self.d_int

        def toks():
            p = d.try_tokenize(input_string=case, source_info=None)
            if p.error_message is not None:
                raise RuntimeError(p.error_message)
            return p.tokenized.words
        t = tok_obs(toks)
        v = None
        if t[0] == "ok":
            p = d.validate(input_string=case)
            if p.error_message is not None:
                v = str(pc.err_line(p.error_message)) if hasattr(pc, "err_line") else None
        for od in self.others:
            try:
                od.validate(input_string=case)
                od.validate_and_format(input_string=case)
            except (RuntimeError, self.fp.Sorry):
                pass                                  # anything else propagates: the case did not complete
        return [t, v]

    def requests(self, case, o):
        return [("tokenize", ["v", case])]

    def model(self, case, replies, o):
        m = model_tok_obs(replies[0])
        if m[0] == "ok" and m[1] == []:
            m = ["ok", [["None", "n", "0"]]]          # try_tokenize supplies the word None for an empty value
        return [m, o[1]]

    def prop(self, case, o):
        t, v = o
        if t[0] == "ok" and t[1] and t[1][0][2] != "0":
            lead = len(case) - len(case.lstrip())
            want = 1 + case[:lead].count("\n")
            if str(t[1][0][2]) != str(want):
                return "the first word stands on line %d of the text but reports line %s" % (want, t[1][0][2])
        if t[0] == "ok" and v is not None and t[1]:
            first = t[1][0][2]
            if str(v) != str(first):
                return "the value error cites line %s, the value starts on line %s of the text" % (v, first)
        return None

    def tag(self, case, o):
        return o[0][0]


SPEC = {
    "clusters": ["Parse", "Tok", "Choice"],
    "streams": [Lines, Labels, FileLineEnds, SoupLines, ScanForStart, ChoiceErrorLines, ValidateLines, ValueErrorLines],
    "rule": "renderings of random abstract trees by the layout sampler, which records the line of every emitted name and word "
            "(multi-line quoted words, continuations, ';', comments, off regions), plus malformed variants with a known faulty token and line; "
            "plus token soup / mutated documents where implementation and model must report identical lines; distinct = distinct text",
    "trusted": ["Modelled: tokenizer.py, parser.py as in C02; observation = (name, where_str line) of every object, (value, line) of every word, "
                "(error kind, line).  Unused-definition report lines are covered by C06's stream, value-error lines by C10's; the "
                "'Not a possible choice' report of a value spread over several lines by stream choice_error_lines (Model/Choice.v)."],
    "modelled": "parser-level line propagation checked by correspondence; theorems are token-level (C15.v)",
    "assumptions": ["text restricted to code points < 256", "the model carries no source label: labels are checked by the oracle-only stream 'labels'"],
}
