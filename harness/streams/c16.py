"""C16 - user mistakes surface as RuntimeError or Sorry, never as internal errors."""
import parse_common as pc
import vlib
from vlib import Stream, import_freephil, exc_class


def cls_view(obs):
    if obs == "UNMODELLED":
        return obs
    if obs[0] == "ok":
        return "ok"
    return obs[1]  # RuntimeError | Sorry | other:<Class>


def has_call_attr(text):
    return ".call" in text


class ParseSoup(Stream):
    name = "parse_soup"
    cluster = "Parse"

    def __init__(self, ctx):
        super().__init__(ctx)
        self.fp = import_freephil()
        self.oracles = {}

    def corpus(self):
        return [
            "s .sequential_format = abc { }",   # formerly F17 (repaired): TypeError escaped
            "s .sequential_format = Auto { }",
            "s .call = foo { }",                # F18 (open): ValueError escapes
            "a=1\n.expert_level = inf",         # formerly F6-attr (repaired): OverflowError escaped
            "a=1\n.input_size = nan",
            # formerly: a '%' in the text of the evaluation error broke the error message (repaired in /repo 6f9fa24)
            "a=1\n.type = int(value_min=dict()['%s'])",
            "a=1\n.type = floats(size=getattr(1,'%d'))",
            "a=1\n.type = ints(value_max=int('%s'))",
            # formerly: a type expression that evaluates to something else than a converter (repaired in /repo: weakref TypeError)
            "x = 1\n.type = int(), 5", "x = 1\n.type = int().phil_type", "x = 1\n.type = int(value_min=2).value_min",
            "x = 1\n.type = choice(multi=1) ,", "x = 1\n.type = floats(size=2) + 1",
        ]

    def cases(self, rng, tier):
        for i in range(4000 if tier == "quick" else 120000):
            r = i % 4
            if r == 0:
                yield pc.gen_soup(rng)
            elif r == 1:
                yield pc.mutate(rng, pc.gen_doc(rng, good=True))
            elif r == 2:
                yield pc.mutate(rng, pc.mutate(rng, pc.gen_doc(rng)))
            else:
                yield pc.gen_doc(rng)

    def impl(self, case):
        o, orc = pc.impl_parse(self.fp, case)
        self.oracles[case] = orc
        return cls_view(o)

    def requests(self, case, o):
        return [("parse", [self.oracles.get(case, []), case])]

    def model(self, case, replies, o):
        return cls_view(pc.model_parse_obs(replies[0]))

    def in_domain(self, case):
        return True

    def prop(self, case, o):
        if o.startswith("other:") or o == "impl-timeout":
            return "parse raised %s" % o
        return None

    def tag(self, case, o):
        return o

    def shrink(self, case):
        return pc.shrink_text(case)

    def neighbours(self, case, rng):
        yield from pc.shrink_text(case)
        for _ in range(100):
            yield pc.mutate(rng, case)


class ArgSoup(Stream):
    """The command-line argument interpreter on token soup: parse step compared with the model;
    the whole call must end in ok / Sorry / RuntimeError."""
    name = "arg_soup"
    cluster = "Parse"
    MASTER = "a = 1\n.type = int\nb = x\n.type = str\ns {\n  a = None\n  .type = float\n  t { c = *x y\n .type = choice\n }\n}\n"

    def __init__(self, ctx):
        super().__init__(ctx)
        self.fp = import_freephil()
        self.master = self.fp.parse(self.MASTER)
        self.oracles = {}

    def cases(self, rng, tier):
        names = ["a", "b", "s.a", "c", "t.c", "s.t.c", "x", "s", ".a", "a.", "", "a%", "%s", "x%d", "%(a)s", "a{0}"]
        vals = ["1", "x y", "'q'", '"', "1;b=2", "=", "{", "}", "\\", "#", "$x", "None", "*y", "a=b", "\n", "!", "%", "%s", "50%", "%(x)s", "{}"]
        for i in range(1500 if tier == "quick" else 40000):
            if i % 3 == 0:
                yield pc.gen_soup(rng)
            else:
                yield rng.choice(["", "!", " "]) + rng.choice(names) + rng.choice(["=", " = ", "", "=="]) + rng.choice(vals)

    def impl(self, case):
        o, orc = pc.impl_parse(self.fp, case)
        self.oracles[case] = orc
        try:
            ai = self.master.command_line_argument_interpreter(home_scope="s")
            import io, contextlib
            with contextlib.redirect_stdout(io.StringIO()):
                ai.process_arg(case)
            r = "ok"
        except BaseException as e:  # noqa  (Sorry derives from SystemExit)
            if isinstance(e, (KeyboardInterrupt, vlib.Timeout)):
                raise
            r = exc_class(e)
        return [cls_view(o), r]

    def requests(self, case, o):
        return [("parse", [self.oracles.get(case, []), case])]

    def model(self, case, replies, o):
        m = cls_view(pc.model_parse_obs(replies[0]))
        if m == "UNMODELLED":
            return m
        return [m, o[1]]

    def prop(self, case, o):
        if o[1].startswith("other:") or o[0].startswith("other:"):
            return "process_arg raised %s (parse: %s)" % (o[1], o[0])
        return None

    def tag(self, case, o):
        return o[1]

    def shrink(self, case):
        return pc.shrink_text(case)


def match_finding(finding, failure):
    case = failure["case"]
    fid = finding["id"]
    what = failure.get("what", "")
    if not isinstance(case, str):
        return False
    if fid == "F18":
        return ".call" in case and any(k in what for k in ("ValueError", "ImportError", "AttributeError", "TypeError", "ModuleNotFoundError"))
    return False


from c02 import ScanForStart  # noqa: E402


class ScanNoCrash(ScanForStart):
    """the off-region scanner on fragment soups: any exception is an internal error"""
    name = "scan_no_crash"

    def prop(self, case, o):
        if o and o[0] == "impl-exception":
            return "scan_for_start raised %s" % o[1]
        return None


class OffRegionSoup(ParseSoup):
    """documents that switch parsing off and end inside / right after the off region"""
    name = "off_region_soup"
    FR = ["#phil", " ", "\n", "__ON__", "__END__", "__OFF__", "x = 1", "\t", "#", "  \n", "a {", "}", "'q", "#philter", "#phil __OFF__\n"]

    def corpus(self):
        return []

    def cases(self, rng, tier):
        for _ in range(1500 if tier == "quick" else 40000):
            yield "#phil __OFF__" + rng.choice(["\n", " \n", ""]) + "".join(rng.choice(self.FR) for _ in range(rng.randint(0, 8)))


import c10  # noqa: E402


class ConverterValues(c10.FromWords):
    """value texts (incl. inf, nan, 1e999, huge integers, empty brackets, unbalanced parentheses, stray operators)
    for every numeric/bool type through from_words / extract: correspondence as in C10, property = no exception other
    than RuntimeError / Sorry escapes and the call returns."""
    name = "converter_values"

    def prop(self, case, o):
        if o and o[0] == "err" and str(o[1]).startswith("other:"):
            return "%s escaped for type %s on value text %r" % (o[1], case[0][0], case[1])
        if o and o[0] in ("impl-timeout", "impl-exception"):
            return "%s on value text %r" % (o, case[1])
        return None

    def in_domain(self, case):
        # an EMPTY word list never reaches a converter from user input (the parser refuses a missing value,
        # validate() substitutes the word None): raw-words mode on a blank text is outside C16's quantifier
        return case[2] == "v" or case[1].strip() != ""


import c09 as _c09  # noqa: E402

HOSTILE = ["", " ", "~", "~\x00", "~a\x00b", "\x00", "a\x00b", "~root", "~nosuchuser_qzk/x", "~/x", "~~", "a~", "\x01\x02\x1f", "\x7f\xff\x85\xa0",
           "\t\n\r\x0b\x0c", "\x1c\x1d\x1e", "None", "Auto", "none", "$x", "${x}", "$(x)", "a$", "\\", "\\\\\"", "'", '"', "'" * 3, '"' * 3,
           "a'b", 'a"b', '"x', "'x", "x y", " x ", "x\ny", "#", "{", "}", ";", "=", "!", "*", "a+b", "\xe9\xfc", "~" + "a" * 300,
           "a" * 5000, "~/" + "b/" * 2000, " ".join(["w"] * 1500), "\x00" * 50]
TEXT_TYPES = ["none", "words", "strings", "str", "qstr", "path", "key"]


class TextConverterValues(_c09.ConvRoundTrip):
    """hostile texts (NUL bytes, tildes, control characters, unbalanced quotes, '$', very long values) as values of the text
    types (no type, words, strings, str, qstr, path, key): definition.format(value), .extract() of the result, and the
    printed form parsed, fetched and extracted again.  Correspondence as in C09 (model: Extract cluster; os.path.expanduser
    and eval are recorded oracles, a refusal of expanduser included); property = only RuntimeError / Sorry escape and every
    call returns."""
    name = "text_converter_values"

    def value(self, tk, text, rng=None):
        if tk in ("str", "qstr", "path", "key"):
            return ["str", text]
        if tk == "words":
            return ["words", [[text, "2"]] if rng is None or rng.random() < 0.6 else [[text, rng.choice("12sd")], ["x", "n"]]]
        extra = [] if rng is None or rng.random() < 0.6 else [["str", rng.choice(HOSTILE[:40])]]
        return ["list", [["str", text]] + extra]

    def corpus(self):
        out = []
        for text in ("~a\x00b", "~\x00", "\x00", "~", '"x', "a" * 5000):
            for tk in TEXT_TYPES:
                out.append([tk, None, self.value(tk, text), "hostile"])
        return out

    def cases(self, rng, tier):
        for text in HOSTILE:
            for tk in TEXT_TYPES:
                yield [tk, None, self.value(tk, text, rng), "hostile"]
        n = 600 if tier == "quick" else 12000
        alpha = ["\x00", "~", "/", "a", " ", "\n", "'", '"', "\\", "$", "\x01", "\x7f", "\xff", "#", "{", ";"]
        for i in range(n):
            k = rng.choice([1, 2, 3, 5, 8, 30])
            text = "".join(rng.choice(alpha) for _ in range(k))
            if i % 3 == 0:
                text = "~" + text
            tk = TEXT_TYPES[i % len(TEXT_TYPES)]
            yield [tk, None, self.value(tk, text, rng), "hostile"]

    def prop(self, case, o):
        if o and o[0] in ("impl-timeout", "impl-exception"):
            return "%s for type %s on %r" % (o, case[0], case[2])
        for what, r in zip(("format", "extract", "print+parse+fetch+extract"), o):
            if isinstance(r, list) and r and r[0] == "err" and str(r[1]).startswith("other:"):
                return "%s: %s escaped for type %s on %r" % (what, r[1], case[0], case[2])
        return None

    def in_domain(self, case):
        return True

    def tag(self, case, o):
        cls = [r[1] if isinstance(r, list) and r and r[0] == "err" else "ok" for r in o if r != []]
        return case[0] + ":" + "/".join(cls)


import c04 as _c04  # noqa: E402
import fetch_common as _fc  # noqa: E402


class FetchNoCrash(_c04.FetchShape):
    """master.fetch(sources) on generated masters x sources with valid and invalid values, misspelt / wrongly nested /
    clashing objects, $variables: correspondence as in C04; property = every fetch ends in a result, RuntimeError or Sorry
    (masters with duplicate sibling names of different kinds are not well-formed and outside the quantifier)."""
    name = "fetch_no_crash"

    def corpus(self):
        # repaired in ceef076: a disabled .multiple object after an active non-multiple namesake holding None used to turn
        # the value into an empty list; extract_format inside fetch then raised AttributeError
        return [
            {"m": "c = None\n  .type = path\n!c = x\n  .multiple = True\n", "s": [], "env": [], "diff": 0, "kind": "plain"},
            {"m": "c\n  .optional = True\n  .multiple = True\n{\n  c = None\n    .type = path\n  !c = Auto\n    .type = strings\n"
                  "    .multiple = True\n}\n", "s": ["c { c = /a/b }\nc { }\n"], "env": [], "diff": 0, "kind": "plain"},
            {"m": "c\n  .optional = True\n  .multiple = True\n{\n  c = None\n    .type = path\n  !c = Auto\n    .type = strings\n"
                  "    .multiple = True\n}\n", "s": [], "env": [], "diff": 1, "kind": "plain"},
            # a $(reference) whose dotted path runs through a DEFINITION (not a scope): 'Undefined variable', nothing else
            {"m": "t = x\n  .type = str\nu = 1\n", "s": ["prefix = job7\nt = $(prefix.dir)/job.log\n"], "env": [], "diff": 0, "kind": "var"},
            {"m": "s {\n  t = x\n}\n", "s": ["s {\n  p = 1\n  t = a$(p.q.r)b\n}\nw = $p.k\n"], "env": [], "diff": 0, "kind": "var"},
        ]

    def requests(self, case, impl_obs):
        reqs = super().requests(case, impl_obs)
        # the hypotheses of C16_fetch_no_crash, evaluated by the model on this master / these sources
        self.__dict__.setdefault("_nfetch_by_case", {})[self.ckey(case)] = len(reqs)
        if self.in_domain(case) and reqs:
            first = reqs[0][1]
            reqs = reqs + [("fetchok", [first[0], first[1]])]
        return reqs

    def model(self, case, replies, impl_obs):
        n = self.__dict__.get("_nfetch_by_case", {}).get(self.ckey(case), len(replies))
        m = super().model(case, replies[:n], impl_obs)
        if len(replies) > n and replies[n] != ["1", "1"] and m != "UNMODELLED":
            return ["hypotheses-of-C16_fetch_no_crash-do-not-hold", replies[n], m]
        return m

    def prop(self, case, o):
        if not isinstance(o, list):
            return None
        if o and o[0] in ("impl-timeout", "impl-exception"):
            return "fetch: %s" % (o,)
        for step in o:
            if isinstance(step, list) and step and step[0] == "err" and str(step[1]).startswith("other:"):
                return "fetch raised %s" % step[1]
        return None

    def in_domain(self, case):
        # well-formed masters: sibling names unique among active objects (a scope and a definition of the same
        # name inside one scope make extract_format raise AttributeError/TypeError: not a user mistake in a source)
        try:
            m = self.fp.parse(input_string=case["m"])
        except Exception:  # noqa
            return False

        def shape(sc):
            return [(k.name, k.is_scope, bool(k.multiple), str(k.type) if k.is_definition else shape(k))
                    for k in sc.objects if not k.is_disabled]

        def uniq(sc):
            seen = {}
            for o in sc.objects:
                if o.is_definition and getattr(o.type, "phil_type", None) == "choice" and len(o.words) == 1 \
                        and o.words[0].quote_token is None and o.words[0].value.lower() in ("none", "auto"):
                    return False  # a choice master must list its alternatives (the code asserts it); the model's
                    # master_ok asks this of disabled definitions too
                if o.is_disabled:
                    if o.is_scope and not uniq(o):
                        return False
                    continue
                first = seen.setdefault(o.name, o)
                if first is not o:
                    # a repeated sibling name is well-formed only as a further occurrence of a .multiple object
                    # of the same kind (and, for definitions, the same type)
                    if not first.multiple or not o.multiple or first.is_scope != o.is_scope:
                        return False  # every occurrence of a multiple object carries .multiple itself
                    if o.is_definition and str(first.type) != str(o.type):
                        return False
                    if o.is_scope and shape(first) != shape(o):
                        return False  # every occurrence of a multiple scope declares the same parameters
                if o.is_scope and not uniq(o):
                    return False
                if o.is_definition and getattr(o.type, "phil_type", None) == "choice" and len(o.words) == 1 \
                        and o.words[0].quote_token is None and o.words[0].value.lower() in ("none", "auto"):
                    return False  # a choice master must list its alternatives (the code asserts it)
            return True
        return uniq(m)


from c16_returns import Returns, ExtractOrder  # noqa: E402  (wall-clock bound in a child interpreter)
from c15 import ValidateLines  # noqa: E402  (definition.validate / try_tokenize on entry-field text: blank-only, multi-line, unclosed quotes)

SPEC = {
    "clusters": ["Parse", "Tok", "Conv", "Fetch", "Extract"],
    "streams": [Returns, ExtractOrder, ValidateLines, ParseSoup, ArgSoup, OffRegionSoup, ScanNoCrash, ConverterValues, TextConverterValues, FetchNoCrash],
    "match_finding": match_finding,
    "rule": "PHIL-biased token soup and 1-2 mutations (delete/duplicate/transpose/truncate/insert) of generated documents into freephil.parse "
            "and into argument_interpreter.process_arg; observation = outcome class (ok / RuntimeError / Sorry / other:<Class>); the model's "
            "Ok/UErr/Crash class must agree; distinct = distinct text",
    "trusted": ["Modelled: tokenizer.py, parser.py, attribute assignment (bool/int/str attributes; .type/.call/eval-based ints via recorded oracle "
                "outcomes, whose class the model passes through).  Converter value texts are covered by C10's stream; eval bombs are never generated."],
    "modelled": "no-internal-error for the parser is checked by correspondence of outcome classes; the theorem covers the tokenizer (C16.v)",
    "assumptions": ["text restricted to code points < 256", "every implementation call runs under a 5 s alarm"],
}
