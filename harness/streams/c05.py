"""C05 - merging obeys the documented rules: last value wins, multiples accumulate; splitting a source,
spelling a path nested or dotted, interleaving unrelated parameters never changes the result.

Both streams run master.fetch on the implementation and on the extracted model (cluster Fetch, Model/Fetch.v),
step by step (fetch_common.FetchStream), so every fetch below is also a correspondence case.

Stream merge_rules  (reference-model oracle, domain D05)
  case   master from the C04 grammar x 0-4 sources generated from the master's paths with the "merge" profile
         (repeated definitions 30 %, hits 50 %, multiples with further master occurrences, repeated instances)
  plan   0  master.fetch(sources)                 tree at full detail / error class + kind  (compared with the model)
  extra  result.extract() dumped as nested [name, value] lists (impl only; the model has no extraction)
  prop   REF: an independent transcription of the property text evaluated on the parsed master and sources
         (never calls scope.fetch / scope.extract / master_active_objects / get_without_substitution):
           non-multiple definition -> value of the LAST matching active source definition, every earlier one evaluated;
                                      else the master default
           non-multiple scope      -> recursively on the concatenated children of the matching source scopes
           multiple                -> [template value, only if .optional = False] ++ dedupe-keep-last of the values of
                                      (further master occurrences ++ source occurrences) different from the template value
         Values of single definitions come from definition.fetch(source).extract() (converter level, not merge level).
         Equality of instances = equality of extracted values (on D05 without float types this coincides with
         equality of the canonical text the implementation compares).
  D05    no multiple object inside a multiple scope, no duplicate sibling names unless the first is multiple, no
         deprecated definition, no float types, sources without "$".  F7 (nested multiples) is outside D05.

Stream meta  (metamorphic oracle, ALL masters)
  case   as above (C04 "shape" profile mixed with "merge"), sources kept in abstract form so that they can be re-rendered
  plan   0  master.fetch(sources, track)                                         the reference run
         1  one source split in two at a top-level boundary (the second part padded with blank lines so that every
            line number is unchanged): must observe EXACTLY what step 0 observes, unused list included
         2  every single-child scope chain / dotted name re-spelled at random (nested <-> dotted): same tree and
            same unused list with source-derived line numbers blanked
         3  two adjacent objects with different first name components swapped, at top level or inside a scope:
            same tree (lines blanked), same unused entries (as a multiset, lines blanked)
         one case in five with diff=True.  Sources with "$" are generated in a minority: correspondence only
         (a $variable is looked up in the lexical context of its document, which the rewrites change).
"""
import json

import vlib
from vlib import canon, objs_sx, exc_class

import fetch_common as fc
from fetch_common import FetchStream, has_dollar

# repeated definitions / instances dominate
fc.PROFILES.setdefault("merge", [0.30, 0.80, 0.84, 0.87, 0.885, 0.90, 0.96])


# ----------------------------------------------------------------------------- abstract sources
def gen_items(rng, paths, nvars, profile):
    items = []
    if nvars:
        for v in ["v", "w"][: rng.randint(0, 2)]:
            items.append(["d", v, 1 if rng.random() < 0.25 else 0, rng.choice(["3", "x y", "True", "$w", "y"])])
    for comps, value, dis, disup in fc.gen_assignments(rng, paths, nvars, profile):
        fc.place(rng, items, comps, value, dis, disup)
    return items


def nlines(text):
    return text.count("\n")


def first_comp(item):
    return item[1].split(".")[0]


def split_variants(items_list):
    """all (source index, boundary) pairs"""
    out = []
    for i, items in enumerate(items_list):
        for j in range(0, len(items) + 1):
            out.append((i, j))
    return out


def do_split(items_list, i, j):
    """texts of the source list with source i cut before top-level item j; line numbers preserved"""
    texts = [fc.render_source(it) for it in items_list]
    a = fc.render_source(items_list[i][:j])
    b = "\n" * nlines(a) + fc.render_source(items_list[i][j:])
    return texts[:i] + [a, b] + texts[i + 1:]


def respell(rng, items, stats):
    out = []
    for it in items:
        kind, name, dis, body = it
        if kind == "s":
            body = respell(rng, body, stats)
        r = rng.random()
        if "." in name and r < 0.5:
            # dotted -> braces, one component at a time (the recursion may expand the rest)
            head, rest = name.split(".", 1)
            inner = [kind, rest, dis, body]
            exp = respell(rng, [inner], stats)
            out.append(["s", head, 0, exp])
            stats["expanded"] = stats.get("expanded", 0) + 1
        elif kind == "s" and not dis and len(body) == 1 and r < 0.6:
            # a single-child scope chain -> dotted name; '!' stays with the innermost object
            ck, cn, cd, cb = body[0]
            out.append([ck, name + "." + cn, cd, cb])
            stats["collapsed"] = stats.get("collapsed", 0) + 1
        else:
            out.append([kind, name, dis, body])
    return out


def swap_sites(items, path=()):
    """positions (path to the list, index) of adjacent items with different first name components"""
    out = []
    for j in range(len(items) - 1):
        if first_comp(items[j]) != first_comp(items[j + 1]):
            out.append((path, j))
    for j, it in enumerate(items):
        if it[0] == "s":
            out.extend(swap_sites(it[3], path + (j,)))
    return out


def do_swap(items, path, j):
    if not path:
        return items[:j] + [items[j + 1], items[j]] + items[j + 2:]
    k = path[0]
    it = items[k]
    return items[:k] + [[it[0], it[1], it[2], do_swap(it[3], path[1:], j)]] + items[k + 1:]


def gen_abstract_case(rng, floats=False, variables=False, profile="merge", dup=True):
    budget = [rng.randint(2, 11)]
    m = fc.gen_master_items(rng, 0, budget, floats=floats, dup=dup)
    paths = fc.master_paths(m)
    ns = rng.choice([1, 1, 1, 2, 2, 3, 4, 0])
    items_list = [gen_items(rng, paths, variables, profile) for _ in range(ns)]
    env = []
    if variables and rng.random() < 0.5:
        env = sorted([k, rng.choice(["E", "1", "e v"])] for k in set(rng.choice(["v", "w", "a"]) for _ in range(rng.randint(1, 2))))
    kind = "float" if floats else "var" if variables else "plain"
    case = {"m": fc.render_master(m), "s": [fc.render_source(it) for it in items_list], "env": env, "diff": 0, "kind": kind}
    return case, items_list


def add_rewrites(rng, case, items_list):
    """case["alt"] = {"split": texts, "respell": texts, "swap": texts, "how": [...]} (texts = original when not applicable)"""
    how = []
    alt = {}
    sv = split_variants(items_list)
    if sv:
        # prefer an inner boundary
        inner = [(i, j) for i, j in sv if 0 < j < len(items_list[i])]
        i, j = rng.choice(inner if inner and rng.random() < 0.85 else sv)
        alt["split"] = do_split(items_list, i, j)
        how.append("split-inner" if 0 < j < len(items_list[i]) else "split-edge")
    else:
        alt["split"] = list(case["s"])
    stats = {}
    resp = [respell(rng, it, stats) for it in items_list]
    alt["respell"] = [fc.render_source(it) for it in resp]
    if alt["respell"] != case["s"]:
        how.append("respell")
    sites = [(i, p, j) for i, it in enumerate(items_list) for p, j in swap_sites(it)]
    if sites:
        nested = [x for x in sites if x[1]]
        i, p, j = rng.choice(nested if nested and rng.random() < 0.5 else sites)
        sw = list(items_list)
        sw[i] = do_swap(items_list[i], p, j)
        alt["swap"] = [fc.render_source(it) for it in sw]
        how.append("swap-top" if not p else "swap-nested")
    else:
        alt["swap"] = list(case["s"])
    alt["how"] = how
    case["alt"] = alt
    return case


# ----------------------------------------------------------------------------- observations
def blank_step(o, sort_unused=False):
    """a step observation with every line number blanked (tree: header lines and word lines; unused: lines)"""
    if not isinstance(o, list) or not o or o[0] != "ok":
        return o
    tree = [vlib.strip_tree(t, keep_line=False, keep_pid=True) for t in o[1]]
    un = o[2]
    if isinstance(un, list) and un and un[0] == "ok":
        ent = [[e[0], "0"] for e in un[1]]
        if sort_unused:
            ent = sorted(ent)
        un = ["ok", ent]
    return ["ok", tree, un]


def dump_value(fp, v):
    import freephil.common as C

    if v is None:
        return ["none"]
    if v is fp.Auto or isinstance(v, type(fp.Auto)):
        return ["auto"]
    if isinstance(v, bool):
        return ["bool", "1" if v else "0"]
    if isinstance(v, int):
        return ["int", str(v)]
    if isinstance(v, float):
        return ["float", repr(v)]
    if isinstance(v, str):
        return ["str", v]
    if isinstance(v, C.scope_extract):
        return ["scope", [[k, dump_value(fp, x)] for k, x in v.__dict__.items() if not k.startswith("__")]]
    if isinstance(v, (list, tuple)):
        return ["list", [dump_value(fp, x) for x in v]]
    return ["other", type(v).__name__]


# ----------------------------------------------------------------------------- the reference model (property text)
class OutOfDomain(Exception):
    pass


class RefRefused(Exception):
    pass


def is_true(v):
    return bool(v)


def ref_entries(objs):
    """the master's parameters of one scope: the first active object of every name; a further active object of the
    same name is a further occurrence of a multiple (handled there) - anything else is outside D05"""
    first = {}
    out = []
    for o in objs:
        if o.is_disabled:
            continue
        f = first.setdefault(o.name, o)
        if f is o:
            out.append(o)
        elif not is_true(f.multiple):
            raise OutOfDomain("duplicate non-multiple sibling")
        elif f.is_definition != o.is_definition:
            raise OutOfDomain("mixed kinds under one multiple name")
    return out


def ref_def_value(k, src):
    """the value the master definition k takes from the source definition src (converter level)"""
    if not src.is_definition:
        raise RefRefused("definition against scope")
    d = k.fetch(source=src)
    if d is None:
        raise OutOfDomain("deprecated")
    return d.extract()


def ref_scope(fp, mobjs, offers, in_multiple):
    """[[name, value], ...] for the master objects mobjs against the active source objects offers"""
    out = []
    for k in ref_entries(mobjs):
        if k.is_definition and is_true(k.deprecated):
            raise OutOfDomain("deprecated")
        if getattr(k, "alias", None) is not None:
            raise OutOfDomain("alias")
        matches = [o for o in offers if o.name == k.name]
        if not is_true(k.multiple):
            if k.is_definition:
                value_from = None
                for d in matches:                       # every matching definition is evaluated, the last one wins
                    if not d.is_definition:
                        raise RefRefused("definition against scope")
                    value_from = k.fetch(source=d)
                    if value_from is None:
                        raise OutOfDomain("deprecated")
                v = (value_from if value_from is not None else k).extract()
            else:
                for s in matches:
                    if s.is_definition:
                        raise RefRefused("scope against definition")
                kids = [o for s in matches for o in s.objects if not o.is_disabled]
                v = ref_scope(fp, k.objects, kids, in_multiple)
            out.append([k.name, ["v", v]])
            continue
        if in_multiple:
            raise OutOfDomain("multiple inside a multiple scope")
        further = [o for o in mobjs if not o.is_disabled and o.name == k.name and o is not k]
        if k.is_definition:
            tv = k.extract()
        else:
            tv = ref_scope(fp, k.objects, [], True)
        insts = []
        for c in further + matches:
            if k.is_definition:
                cv = ref_def_value(k, c)
            else:
                if c.is_definition:
                    raise RefRefused("scope against definition")
                cv = ref_scope(fp, k.objects, [o for o in c.objects if not o.is_disabled], True)
            if same_value(cv, tv):
                continue                                 # equal to the template: dropped
            insts = [x for x in insts if not same_value(x, cv)] + [cv]     # exact duplicates collapse onto the later copy
        # "the master's first occurrence only if .optional = False (then always first)": the occurrence as it stands
        lst = ([ref_verbatim(k)] if (k.optional is not None and not k.optional) else []) + insts
        if k.optional is True:
            lst = [x for x in lst if x is not None]      # scope_extract.__phil_set__: an optional list drops None
        out.append([k.name, ["l", lst]])
    return RScope(out)


def ref_verbatim(o):
    """the value of a master object taken as it stands (no sources): what extraction gives for the template copy.
    Inside D05 a multiple scope holds no multiples; a disabled object shows as None (scope.extract) unless an
    earlier sibling of the same name has supplied a value (it then leaves that value alone)."""
    if o.is_definition:
        return o.extract()
    slots = {}
    for c in o.objects:
        if is_true(c.multiple):
            raise OutOfDomain("multiple inside a multiple scope")
        if c.is_disabled and c.name in slots:
            continue                                     # __phil_set__: a disabled object does not disturb an earlier sibling of its name
        v = None if c.is_disabled else ref_verbatim(c)
        if isinstance(slots.get(c.name), RScope) and isinstance(v, RScope):
            raise OutOfDomain("duplicate non-multiple sibling")
        slots[c.name] = ["v", v]
    return RScope([[n, x] for n, x in slots.items()])


class RScope:
    """a scope value of the reference model: items = [[name, ["v", value] | ["l", [value, ...]]], ...]"""

    def __init__(self, items):
        self.items = items


def same_value(a, b):
    if isinstance(a, RScope) or isinstance(b, RScope):
        if not (isinstance(a, RScope) and isinstance(b, RScope)) or len(a.items) != len(b.items):
            return False
        for (n1, (t1, v1)), (n2, (t2, v2)) in zip(a.items, b.items):
            if n1 != n2 or t1 != t2:
                return False
            if t1 == "l":
                if len(v1) != len(v2) or not all(same_value(x, y) for x, y in zip(v1, v2)):
                    return False
            elif not same_value(v1, v2):
                return False
        return True
    if isinstance(a, (list, tuple)) and isinstance(b, (list, tuple)):
        return len(a) == len(b) and all(same_value(x, y) for x, y in zip(a, b))
    if type(a) is not type(b):
        return False
    if isinstance(a, float):
        return repr(a) == repr(b)
    if isinstance(a, (bool, int, str)):
        return a == b
    return a is b           # None, Auto


def dump_ref(fp, v):
    """the reference result in the shape of dump_value(result.extract())"""
    if isinstance(v, RScope):
        out = []
        for n, (t, x) in v.items:
            out.append([n, ["list", [dump_ref(fp, e) for e in x]] if t == "l" else dump_ref(fp, x)])
        return ["scope", out]
    return dump_value(fp, v)


# ----------------------------------------------------------------------------- streams
class MergeBase(FetchStream):
    """FetchStream with an extra, implementation-only observation appended after the step observations."""

    def extra(self, case, objs, results, obs):
        return None

    def impl(self, case):
        fp = self.fp
        try:
            objs = {"m": fp.parse(input_string=case["m"]), "s": [fp.parse(input_string=t) for t in case["s"]]}
        except BaseException as e:  # noqa
            fc.reraise_control(e)
            self.stash[self.ckey(case)] = []
            return ["badcase", exc_class(e)]
        env = dict((k, v) for k, v in case.get("env", []))
        texts = [case["m"]] + list(case["s"])
        for v in (case.get("alt") or {}).values():
            texts.extend(t for t in v if isinstance(t, str))
        universe = fc.var_names(texts)
        obs, reqs, results = [], [], []
        with fc.patched_environ(env, universe):
            for step in self.plan(case):
                try:
                    master = self._resolve(step["master"], case, objs, results)
                    sources = [self._resolve(r, case, objs, results) for r in step["sources"]]
                except BaseException as e:  # noqa
                    fc.reraise_control(e)
                    master, sources = None, [None]
                if master is None or any(s is None for s in sources):
                    obs.append(["skipped"])
                    reqs.append(None)
                    results.append(None)
                    continue
                o, rq, res = fc.run_step(fp, master, sources, sorted(env.items()), step["diff"], step["track"])
                obs.append(o)
                reqs.append(rq)
                results.append(res)
            x = self.extra(case, objs, results, obs)
        self.stash[self.ckey(case)] = reqs
        return obs + [["x", x]]

    def model(self, case, replies, impl_obs):
        if impl_obs and impl_obs[0] == "badcase":
            return impl_obs
        if not isinstance(impl_obs, list) or (impl_obs and impl_obs[0] in ("impl-timeout", "impl-exception")):
            return ["model-has-no-opinion"]
        m = super().model(case, replies, impl_obs[:-1])
        if isinstance(m, list):
            return m + [impl_obs[-1]]
        return m

    def shrink(self, case):
        for c in super().shrink(case):
            c = dict(c)
            c.pop("alt", None)
            yield c


class MergeRules(MergeBase):
    name = "merge_rules"

    def __init__(self, ctx):
        super().__init__(ctx)
        self.dom = {}

    def plan(self, case):
        srcs = [["s", i] for i in range(len(case["s"]))]
        return [{"master": "m", "sources": srcs, "diff": False, "track": False},
                # the "working = master.fetch()" idiom: a fetch result (templates flagged) as the master; model only
                {"master": "m", "sources": [], "diff": False, "track": False},
                {"master": ["r", 1], "sources": srcs, "diff": False, "track": False, "lenient_oracle": True}]

    def extra(self, case, objs, results, obs):
        def ext(r):
            if r is None:
                return ["none"]
            try:
                return ["ok", dump_value(self.fp, r.extract())]
            except BaseException as e:  # noqa
                fc.reraise_control(e)
                return ["err", exc_class(e)]
        first = ext(results[0]) if results else ["none"]
        # the same sources merged into master.fetch() instead of the master (third step)
        return first + [ext(results[2]) if len(results) > 2 else ["none"]]

    def corpus(self):
        mk = lambda m, s: {"m": m, "s": s, "env": [], "diff": 0, "kind": "plain"}  # noqa
        return [
            # last value wins across and inside sources; an unrelated definition in between
            mk("a = 1\n  .type = int\nb = 2\n", ["a = 2\nb = 5\na = 3\n", "a = 4\n"]),
            # the worked example of Proofs/FetchMergeExamples.v
            mk("a = 1\ns\n  .multiple = True\n{\n  b = x\n}\nt {\n  c = 4\n}\n",
               ["a = 2\ns { b = y }\ns { b = z }\na = 3\ns { b = y }\n", "t.c = 5\n"]),
            # three sources with a repeated middle instance; an instance equal to the template
            mk("s\n  .multiple = True\n{\n  b = x\n}\n", ["s { b = y }\n", "s { b = z }\ns { b = x }\n", "s { b = y }\n"]),
            # .optional = False: the template is the first list element; further master occurrences come before the sources
            mk("s\n  .multiple = True\n  .optional = False\n{\n  b = x\n}\ns\n  .multiple = True\n{\n  b = w\n}\n", ["s { b = y }\ns.b = w\n"]),
            # the template of an .optional = False multiple scope holds a disabled namesake after an active definition:
            # the disabled one leaves the value alone (seed 91 of the round-9 sweep: the reference had it overwrite with None)
            mk("s\n  .multiple = True\n  .optional = False\n{\n  c = Auto\n    .type = strings\n  !c = a b\n}\n", ["s.c = a b\n", "s { c = None }\n"]),
            mk("s\n  .multiple = True\n  .optional = False\n{\n  !c = a b\n  c = Auto\n    .type = strings\n}\n", ["s.c = x\n"]),
            mk("d = None\n  .type = int\n  .multiple = True\n  .optional = True\n", ["d = 1\nd = None\nd = 2\nd = 1\n"]),
            # untyped multiples: equal values spelt differently (bare / quoted, None / none) are equal instances
            mk("tag = a\n  .multiple = True\nother = 0\n  .type = int\n", ['tag = "a"\ntag = b\n', 'other = 3\ntag = "b"\ntag = c\n']),
            mk("tag = a\n  .multiple = True\n", ["tag = None\ntag = x\n", "tag = none\n"]),
            mk("s {\n  tag = a b\n    .multiple = True\n}\n", ["s.tag = \"a\" b\ns.tag = 'c'\n", "s {\n  tag = c\n  tag = a 'b'\n}\n"]),
            # .optional = True drops None instances only: 0, False and the empty string are values
            mk("d = None\n  .type = int\n  .multiple = True\n  .optional = True\nb = None\n  .type = bool\n  .multiple = True\n  .optional = True\n"
               "t = None\n  .type = str\n  .multiple = True\n  .optional = True\n", ["d = 0\nd = 3\nb = False\nb = True\nt = \"\"\nt = x\n", "d = 0\nb = no\n"]),
            mk("d = 5\n  .type = int\n  .multiple = True\n", ["d = 1\nd = 5\nd = 2\nd = 1\nd = 3*1\nd = 3\n"]),
            # an earlier invalid value raises although a later valid one would win
            mk("c = x y\n  .type = choice\n", ["c = w\nc = y\n"]),
            # nested multiples (F7 territory): outside D05, correspondence only
            mk("s\n  .multiple = True\n{\n  d = yes\n    .type = bool\n    .multiple = True\n}\n", ["s { d = no }\n"]),
        ]

    def cases(self, rng, tier):
        n = 3000 if tier == "quick" else 24000
        for i in range(n):
            c, _ = gen_abstract_case(rng, floats=(i % 25 == 24), variables=(rng.random() < 0.05),
                                     profile="merge" if i % 4 else "shape", dup=(i % 3 != 0))
            yield c

    # -- the domain D05 (decided on the parsed master; cached per master text)
    def _master_domain(self, text):
        r = self.dom.get(text)
        if r is None:
            try:
                m = self.fp.parse(input_string=text)
                r = d05(m.objects, False)
            except BaseException as e:  # noqa
                fc.reraise_control(e)
                r = "unparsable"
            self.dom[text] = r
        return r

    def in_domain(self, case):
        if case.get("kind") == "float" or has_dollar(case["s"]) or case.get("diff"):
            return False
        return self._master_domain(case["m"]) == ""

    def prop(self, case, obs):
        if not isinstance(obs, list) or len(obs) < 2 or not isinstance(obs[0], list):
            return None
        o0, x = obs[0], obs[-1]
        got = x[1]
        fp = self.fp
        try:
            m = fp.parse(input_string=case["m"])
            srcs = [fp.parse(input_string=t) for t in case["s"]]
            offers = [o for s in srcs for o in s.objects if not o.is_disabled]
            want = ["ok", dump_ref(fp, ref_scope(fp, m.objects, offers, False))]
        except OutOfDomain:
            return None
        except RefRefused:
            want = ["err"]
        except BaseException as e:  # noqa
            fc.reraise_control(e)
            if exc_class(e) in ("RuntimeError", "Sorry"):
                want = ["err"]
            else:
                return None          # an assertion of a converter (e.g. a choice master "None"): C16's business, not a merge rule
        if o0[0] == "err" and o0[1] not in ("RuntimeError", "Sorry"):
            return None
        if got[0] == "err" and got[1] not in ("RuntimeError", "Sorry"):
            return None
        have = ["err"] if (o0[0] == "err" or got[0] == "err") else got[:2]
        if have != want:
            return "REF: extraction gives %s, the merge rules give %s" % (json.dumps(have)[:400], json.dumps(want)[:400])
        # master.fetch() used as the master: the same merge rules (masters with unique sibling names)
        if len(obs) >= 4 and len(got) > 2 and not self._dup_master(case["m"]) and want != ["err"]:
            o2, g2 = obs[2], got[2]
            if isinstance(o2, list) and o2[0] == "ok" and g2[0] == "ok" and g2[:2] != want:
                return "REF (master = master.fetch()): extraction gives %s, the merge rules give %s" % (
                    json.dumps(g2)[:400], json.dumps(want)[:400])
        return None

    def tag(self, case, o):
        t = super().tag(case, o[:-1] if isinstance(o, list) and o and isinstance(o[-1], list) and o[-1][:1] == ["x"] else o)
        return t + (":D05" if self.in_domain(case) else ":outside")

    def neighbours(self, case, rng):
        yield from self.shrink(case)
        for _ in range(40):
            if not case["s"]:
                break
            c = dict(case)
            c["s"] = list(case["s"]) + [rng.choice(case["s"])]
            yield c


def d05(objs, in_multiple):
    """"" if the master objects are in D05, else the reason"""
    first = {}
    for o in objs:
        if o.is_disabled:
            continue
        f = first.setdefault(o.name, o)
        if f is not o and (not f.multiple or f.is_definition != o.is_definition):
            return "duplicate sibling"
        if o.is_definition and o.deprecated:
            return "deprecated"
        if getattr(o, "alias", None) is not None:
            return "alias"
        if o.multiple and in_multiple:
            return "multiple inside a multiple scope"
        if o.is_scope:
            r = d05(o.objects, in_multiple or bool(o.multiple))
            if r:
                return r
    return ""


class Meta(MergeBase):
    name = "meta"

    def plan(self, case):
        d = bool(case.get("diff"))
        alt = case.get("alt") or {"split": case["s"], "respell": case["s"], "swap": case["s"]}
        steps = [{"master": "m", "sources": [["t", t] for t in case["s"]], "diff": d, "track": True}]
        for k in ("split", "respell", "swap"):
            steps.append({"master": "m", "sources": [["t", t] for t in alt[k]], "diff": d, "track": True})
        return steps

    def corpus(self):
        def mk(m, s, split, respell, swap, diff=0):
            return {"m": m, "s": s, "env": [], "diff": diff, "kind": "plain",
                    "alt": {"split": split, "respell": respell, "swap": swap, "how": ["split-inner", "respell", "swap-top"]}}
        m1 = "a = 1\ns\n  .multiple = True\n{\n  b = x\n}\nt {\n  c = 4\n}\n"
        return [
            mk(m1, ["a = 2\ns {\n  b = y\n}\ns {\n  b = z\n}\na = 3\ns {\n  b = y\n}\nt.c = 5\n"],
               ["a = 2\ns {\n  b = y\n}\n", "\n\n\n\ns {\n  b = z\n}\na = 3\ns {\n  b = y\n}\nt.c = 5\n"],
               ["a = 2\ns.b = y\ns.b = z\na = 3\ns {\n  b = y\n}\nt {\n  c = 5\n}\n"],
               ["s {\n  b = y\n}\na = 2\ns {\n  b = z\n}\na = 3\ns {\n  b = y\n}\nt.c = 5\n"]),
            # nested multiples: the metamorphic part is claimed for all masters
            mk("s\n  .multiple = True\n{\n  d = yes\n    .type = bool\n    .multiple = True\n  e = 1\n}\n",
               ["s {\n  d = no\n  e = 2\n}\ns.d = no\n"],
               ["s {\n  d = no\n  e = 2\n}\n", "\n\n\n\ns.d = no\n"],
               ["s {\n  d = no\n  e = 2\n}\ns {\n  d = no\n}\n"],
               ["s {\n  e = 2\n  d = no\n}\ns.d = no\n"]),
            mk(m1, ["zz = 1\nt.c = 7\ns.b = q\n"], ["zz = 1\n", "\nt.c = 7\ns.b = q\n"], ["zz = 1\nt {\n  c = 7\n}\ns {\n  b = q\n}\n"],
               ["t.c = 7\nzz = 1\ns.b = q\n"], diff=1),
        ]

    def cases(self, rng, tier):
        n = 1800 if tier == "quick" else 11000
        for i in range(n):
            c, items = gen_abstract_case(rng, floats=(i % 14 == 13), variables=(rng.random() < 0.06),
                                         profile="merge" if i % 2 else "shape")
            if i % 5 == 4:
                c["diff"] = 1
            yield add_rewrites(rng, c, items)

    def in_domain(self, case):
        texts = list(case["s"])
        for v in (case.get("alt") or {}).values():
            texts.extend(t for t in v if isinstance(t, str))
        return not has_dollar(texts)

    def prop(self, case, obs):
        if not isinstance(obs, list) or len(obs) != 5 or not isinstance(obs[0], list):
            return None
        o0, o1, o2, o3 = obs[:4]
        if any(o == ["skipped"] for o in (o0, o1, o2, o3)):
            return None
        if o1 != o0:
            return "split: %s after splitting, %s before" % (json.dumps(o1)[:300], json.dumps(o0)[:300])
        if blank_step(o2) != blank_step(o0):
            return "respell: %s after re-spelling nested/dotted, %s before" % (
                json.dumps(blank_step(o2))[:300], json.dumps(blank_step(o0))[:300])
        if blank_step(o3, True) != blank_step(o0, True):
            return "swap: %s after swapping two unrelated neighbours, %s before" % (
                json.dumps(blank_step(o3, True))[:300], json.dumps(blank_step(o0, True))[:300])
        return None

    def key(self, case, o):
        return self.ckey(case) if case["s"] and (case.get("alt") or {}).get("how") else None

    def tag(self, case, o):
        t = super().tag(case, o[:-1] if isinstance(o, list) and o and isinstance(o[-1], list) and o[-1][:1] == ["x"] else o)
        how = (case.get("alt") or {}).get("how") or ["none"]
        return t + ":" + "+".join(how)

    def shrink(self, case):
        # the rewrites belong to the case: shrink by dropping whole sources consistently is not possible in general,
        # so only the master and the environment are shrunk
        for v in fc.shrink_lines(case["m"]):
            c = dict(case)
            c["m"] = v
            yield c
        if case.get("env"):
            c = dict(case)
            c["env"] = []
            yield c

    def neighbours(self, case, rng):
        yield from self.shrink(case)


def match_finding(finding, failure):
    return False


class ArgsMerge(vlib.Stream):
    """the merge through the command-line entry point: process_and_fetch(args) gives what fetching the individually
    interpreted arguments in order gives - also when an argument occurs again after another one (the last definition wins,
    a repeated instance of a .multiple parameter collapses onto the later copy).  Oracle only."""
    name = "args_merge"
    cluster = "Fetch"
    MASTER = "x = 0\n  .type = int\nflag = False\n  .type = bool\ngrp {\n  m = None\n    .type = int\n    .multiple = True\n  t = a\n    .type = str\n}\n"

    def __init__(self, ctx):
        super().__init__(ctx)
        self.fp = vlib.import_freephil()

    def cases(self, rng, tier):
        pool = ["x=1", "x=2", "grp.m=1", "grp.m=2", "grp.m=3", "t=p", "t=q", "flag=True", "flag=False", "x=1", "grp.t=p"]
        for _ in range(150 if tier == "quick" else 2000):
            args = [rng.choice(pool) for _ in range(rng.randint(2, 5))]
            if rng.random() < 0.6:
                args.append(rng.choice(args))            # an argument repeated verbatim
            yield args

    def impl(self, case):
        fp = self.fp
        m = fp.parse(self.MASTER)

        def vals(w):
            e = w.extract()
            return [e.x, e.flag, list(e.grp.m), e.grp.t]
        try:
            ai = m.command_line_argument_interpreter()
            got = vals(ai.process_and_fetch(args=case))
            want = vals(m.fetch(sources=[ai.process(arg=a) for a in case]))
        except (RuntimeError, fp.Sorry) as e:
            return ["refused", exc_class(e)]
        return ["ok", got, want]

    def requests(self, case, o):
        return []

    def model(self, case, replies, o):
        return o

    def prop(self, case, o):
        if o[0] == "ok" and o[1] != o[2]:
            return "process_and_fetch(%r) gives %r, fetching the interpreted arguments in order gives %r" % (case, o[1], o[2])
        return None

    def tag(self, case, o):
        return o[0]


SPEC = {
    "clusters": ["Fetch"],
    "streams": [MergeRules, Meta, ArgsMerge],
    "rule": "masters as for C04 (7-name pool, every non-float built-in type, .multiple/.optional in all combinations incl. further master "
            "occurrences and multiples nested in multiple scopes, deprecated, disabled, depth <= 3; float types in a minority) x 0-4 sources "
            "generated from the master's paths in abstract form with the 'merge' profile (repeated assignments 30 %, hits 50 %, plus misspelt / "
            "wrongly nested / clashes / unknown scopes / empty instances; dotted, nested and merged-block spelling; disabled objects; $variables "
            "in ~5 %).  merge_rules: 1 fetch + extraction per case, reference model on D05.  meta: 4 tracked fetches per case (original, one "
            "source split at a top-level boundary with line numbers preserved, nested<->dotted re-spelling of single-child chains, two adjacent "
            "objects with different first name components swapped at top level or inside a scope); one case in five with diff=True.  distinct = "
            "distinct (master, sources, env, diff[, rewrites]); non-trivial = at least one source (meta: at least one effective rewrite)",
    "trusted": fc.COMMON_TRUSTED + [
        "merge_rules' reference model is a Python transcription of the property text; values of single definitions come from "
        "definition.fetch(source).extract() (converter level); instance equality = equality of extracted values (D05 excludes float types).",
    ],
    "modelled": "as C04 (Model/Fetch.v); extraction is not modelled here (the extraction dump is observed on the implementation only and judged "
                "by the reference model); the theorems' 'canon' is the recorded oracle",
    "assumptions": ["text restricted to code points < 256", "masters without .alias", "no custom converter types",
                    "sources are scopes parsed separately from the master (no shared objects)",
                    "reference-model clause: D05 (no multiple inside a multiple scope, unique sibling names unless multiple, no deprecated, "
                    "no float types, sources without $); metamorphic clauses: all masters, sources without $"],
    "match_finding": match_finding,
}
