"""C06 - every source definition is either consumed or reported as unused.

Stream fetch_unused (cluster Fetch): the C04 generator biased to misspelt / wrongly nested / repeated /
disabled definitions and unknown scopes at every depth.  Plan per case (each step compared with the model):
  0  master.fetch(sources, track_unused_definitions=True)    tree + [[path, line], ...]
  1  master.fetch(sources)                                    tracking off, same source objects
  2  master.fetch(sources, track_unused_definitions=True)    again on the SAME source objects: their tmp
                                                              slots now hold the marks of step 0 (stale marks)
Property oracle on the implementation's observations (independent of the model):
  same-tree  - steps 0 and 1 give the same tree / the same refusal              (C06_result_unchanged)
  exact      - the reported list is the list of active source definitions (no disabled enclosing scope),
               document order, each once, with dotted path and line, whose path - as a list of names -
               does not lead through the master's active entries to a master definition   (C06_exact)
               Stated exception (C06_with_variables): a definition that supplies a $variable to a consumed
               definition is marked consumed by definition.resolve_variables and is not reported.  For
               sources with "$" the oracle therefore accepts a reported list that is the expected one minus
               definitions some $reference of the sources can name; WHICH of them are dropped is decided by
               the model (Fetch.var_marks) and compared exactly by the correspondence.
  stale      - step 2 observes what step 0 observed                             (C06_stale_marks_irrelevant)
"""
import json

import vlib
from vlib import canon, objs_sx

import fetch_common as fc
from fetch_common import FetchStream, t_name, t_dis, t_multiple, has_dollar, var_names


# ----------------------------------------------------------------------------- the property's formula, independently
def active_entries(objs):
    """the master's active parameters of one scope: first active object of a name; later scopes of a
    non-multiple name as well (a later definition is refused by fetch: no Ok run)"""
    first = {}
    out = []
    for o in objs:
        if t_dis(o):
            continue
        n = t_name(o)
        if n not in first:
            first[n] = o
            out.append(o)
        elif not t_multiple(first[n]) and o[0] == "scope":
            out.append(o)
    return out


def names_parameter(mobjs, comps):
    """does the path (list of names) name an active master parameter (a definition)?"""
    for k in active_entries(mobjs):
        if t_name(k) != comps[0]:
            continue
        if len(comps) == 1:
            if k[0] == "def":
                return True
        elif k[0] == "scope" and names_parameter(k[2], comps[1:]):
            return True
    return False


def active_definitions(objs, prefix=()):
    """[(names, line)] of the active definitions, document order"""
    out = []
    for o in objs:
        if t_dis(o):
            continue
        p = prefix + (t_name(o),)
        if o[0] == "def":
            if t_name(o) != "include":
                out.append((p, o[1][5]))
        else:
            out.extend(active_definitions(o[2], p))
    return out


def expected_unused(mtree, strees):
    out = []
    for st in strees:
        for p, line in active_definitions(st):
            if not names_parameter(mtree, list(p)):
                out.append([".".join(p), line])
    return out


class FetchUnused(FetchStream):
    name = "fetch_unused"

    def plan(self, case):
        src = [["s", i] for i in range(len(case["s"]))]
        d = bool(case.get("diff"))
        return [
            {"master": "m", "sources": src, "diff": d, "track": True},
            {"master": "m", "sources": src, "diff": d, "track": False},
            {"master": "m", "sources": src, "diff": d, "track": True},
            # the same sources spliced into a scope the way an include inside a scope does (model only)
            {"master": "m", "sources": [["w", i] for i in range(len(case["s"]))], "diff": d, "track": True},
        ] + ([{"master": "m", "sources": [["t", t[len(case["pre"]):]] for t in case["s"]], "diff": d, "track": True}] if case.get("pre") else [
            # a fetch RESULT (hidden templates, instances) offered as the source of a tracked fetch (model only)
            {"master": "m", "sources": [["r", 1]], "diff": d, "track": True, "impl_only": True}])

    def corpus(self):
        return [
            # the stated exception: y names no master parameter but supplies $y to a consumed definition: not reported
            {"m": "a = 1\n", "s": ["y = 5\na = $y\n"], "env": [], "diff": 0, "kind": "var"},
            # the worked example of Proofs/FetchExamples.v: zz unknown, d names only a disabled master parameter
            {"m": "a = 1\ns\n  .multiple = True\n{\n  b = x\n}\n!d = 0\n",
             "s": ["a = 2\ns { b = y }\ns { b = x }\nzz = 1\nd = 7\n"], "env": [], "diff": 0, "kind": "plain"},
            # the documentation's example: misspelt / wrongly nested at several depths, repeated, disabled
            {"m": "a = 1\ns {\n  b = 2\n  t {\n    c = 3\n  }\n}\n",
             "s": ["a = 5\nab = 1\ns.bb = 2\ns.t.c = 4\ns.t.d = 5\nt.c = 6\n!zz = 1\n!s { q = 1 }\ns { t { c = 7\n e = 8 } }\nq.s.b = 1\n",
                   "s.b = 9\ns.b = 10\nc = 1\n"], "env": [], "diff": 0, "kind": "plain"},
            # unknown names inside repeated multiple scopes, and inside an instance equal to the template
            {"m": "s\n  .multiple = True\n{\n  b = x\n}\n", "s": ["s { b = y\n c = 1 }\ns { b = x\n c = 2 }\ns { c = 3 }\n"],
             "env": [], "diff": 0, "kind": "plain"},
            # include-named definitions are never reported; a definition under a disabled scope is not active
            {"m": "a = 1\n", "s": ["!q { a = 1 }\nq { !a = 1\n b = 2 }\n"], "env": [], "diff": 0, "kind": "plain"},
            # diff mode reports the same list
            {"m": "a = 1\n  .type = int\n", "s": ["a = 1\nb = 2\n"], "env": [], "diff": 1, "kind": "plain"},
        ]

    def cases(self, rng, tier):
        n = 3000 if tier == "quick" else 24000
        for i in range(n):
            c = fc.gen_case(rng, floats=(i % 15 == 14), profile="unused", variables=(rng.random() < 0.12))
            if i % 6 == 5:
                c["diff"] = 1
            if i % 5 == 3 and c["s"]:
                # lines that move the line counter in unusual ways in front of the reported definitions (the same lines in front
                # of every source): a quoted value continued with backslash-newline, a quoted value spanning lines, a value
                # continued with a backslash, blank lines.  The reported lines must move by exactly the newlines added.
                pre, names = rng.choice([
                    ('zq = "a\\\nb"\n', [["zq", 1]]), ('zq = "a\nb\nc"\n', [["zq", 1]]), ("zq = a \\\n  b\n", [["zq", 1]]), ("\n\n", []),
                    ('zq = """x\\\n\ny"""\nzr = 1\n', [["zq", 1], ["zr", 4]]),
                    # the value starts on a later line than the name: the report cites the line of the NAME
                    ("zq = \\\n  b c\n", [["zq", 1]]), ("\nzq = \\\n\n  'q'\nzr = \\\n 2\n", [["zq", 2], ["zr", 5]])])
                c["pre_names"] = names
                c["pre"] = pre
                c["s"] = [pre + t for t in c["s"]]
            yield c

    def in_domain(self, case):
        return True

    def prop(self, case, obs):
        if not isinstance(obs, list) or len(obs) < 3 or not isinstance(obs[0], list):
            return None
        o0, o1, o2 = obs[:3]
        # same-tree
        if (o0[0], o0[1]) != (o1[0], o1[1]) or (o0[0] == "err" and o0 != o1):
            return "same-tree: tracking on gives %s, tracking off %s" % (json.dumps(o0)[:200], json.dumps(o1)[:200])
        if case.get("pre") and len(obs) >= 5 and o0[0] == "ok" and isinstance(obs[4], list) and obs[4][0] == "ok" \
                and o0[2][0] == "ok" and obs[4][2][0] == "ok":
            shift = case["pre"].count("\n")
            with_pre = sorted([p, int(l)] for p, l in o0[2][1] if int(l) > shift)     # entries of the added lines themselves left out
            own = sorted([p, int(l)] for p, l in o0[2][1] if int(l) <= shift)
            want_own = sorted([list(x) for x in case.get("pre_names", [])] * len(case["s"]))
            if own != want_own:
                return "lines: the definitions of the added lines are reported as %s, they stand at %s" % (json.dumps(own)[:200], json.dumps(want_own)[:200])
            plain = sorted([p, int(l) + shift] for p, l in obs[4][2][1])
            if with_pre != plain:
                return "lines: with %d extra line(s) in front of every source the report is %s; without them %s (expected the same entries %d line(s) further down)" % (
                    shift, json.dumps(o0[2][1])[:200], json.dumps(obs[4][2][1])[:200], shift)
        if not case.get("pre") and len(obs) >= 5 and isinstance(obs[4], list) and obs[4][0] == "ok" and obs[4][2][0] == "ok" \
                and not case.get("diff") and not has_dollar(case["s"] + [case["m"]]) and not self._dup_master(case["m"]):
            # step 4: the result of step 1 offered as the only source: every definition of it sits at a path the master declares,
            # so nothing may be reported (recorded exception: C06-refetch-shared-template)
            bad = [e for e in obs[4][2][1] if not self.shared_template_entry(case["m"], e[0])]
            if bad:
                return "refetch: a fetch result offered as the source reports %s as unused although every definition of it names a master parameter" % json.dumps(bad)[:300]
            if obs[4][2][1]:
                return "refetch-shared-template: %s" % json.dumps(obs[4][2][1])[:200]
        if o2 != o0:
            return "stale: a second tracked fetch on the same source objects gives %s, the first gave %s" % (
                json.dumps(o2)[:200], json.dumps(o0)[:200])
        if o0[0] != "ok":
            return None
        mtree = canon(objs_sx(self.fp.parse(input_string=case["m"])))
        strees = [canon(objs_sx(self.fp.parse(input_string=t))) for t in case["s"]]
        want = expected_unused(mtree, strees)
        got = o0[2][1]
        if got == want:
            return None
        if has_dollar(case["s"]):
            # the stated exception: every reported entry is expected, in order, and every expected entry that
            # is missing is a definition some "$" reference of the sources can name
            names = var_names(case["s"])
            missing, gi = [], 0
            for w in want:               # greedy embedding of the reported list into the expected one
                if gi < len(got) and got[gi] == w:
                    gi += 1
                else:
                    missing.append(w)
            def nameable(path):      # a reference may spell the whole path or (relative lookup) a dotted tail of it
                return any(n and (path == n or path.endswith("." + n)) for n in names)
            if gi == len(got) and missing and all(nameable(w[0]) for w in missing):
                return None
        return "exact: reported %s, the property's formula gives %s" % (json.dumps(got)[:300], json.dumps(want)[:300])

    def shared_template_entry(self, mtext, path):
        """the path passes through a .multiple object nested (at any depth) inside a .multiple scope of the master: the part of a
        hidden template copy that is shared with the master (shallow copy)"""
        try:
            objs = self.fp.parse(input_string=mtext).objects
        except BaseException as e:  # noqa
            fc.reraise_control(e)
            return False
        nmult = 0
        comps = path.split(".")
        for i, c in enumerate(comps):
            nxt = [o for o in objs if o.name == c and not o.is_disabled]
            if not nxt:
                return False
            o = nxt[0]
            nmult += 1 if o.multiple else 0
            if i == len(comps) - 1:
                return bool(o.is_definition) and nmult >= 2
            if not o.is_scope:
                return False
            objs = o.objects
        return False

    def tag(self, case, o):
        t = super().tag(case, o)
        if isinstance(o, list) and o and isinstance(o[0], list) and o[0][0] == "ok" and o[0][2][0] == "ok":
            n = len(o[0][2][1])
            return t + ":unused-%s" % ("0" if n == 0 else "1" if n == 1 else "2+")
        return t


def match_finding(finding, failure):
    if finding.get("id") == "C06-refetch-shared-template":
        return str(failure.get("what", "")).startswith("refetch-shared-template:")
    return False


SPEC = {
    "clusters": ["Fetch"],
    "streams": [FetchUnused],
    "rule": "masters as for C04; sources generated from the master's paths with the 'unused' profile (hits 38 %, misspelt 18 %, "
            "wrongly nested 14 %, unknown scopes 8 %, repeated 10 %, empty instances, clashes 1.5 %, disabled definitions and "
            "enclosing scopes, dotted / nested / merged-block spelling, $variables in 12 % of the cases); one case in six with "
            "diff=True; 3 fetch runs per case (tracked, untracked, tracked again on the same objects); distinct = distinct "
            "(master text, source texts, env, diff); non-trivial = at least one source",
    "trusted": fc.COMMON_TRUSTED,
    "modelled": "as C04; the tmp marks are modelled as the set of positions handed to definition.fetch_value plus the positions "
                "definition.resolve_variables marks on substitution sources (located by primary id inside the source document)",
    "assumptions": ["text restricted to code points < 256", "masters without .alias", "no custom converter types",
                    "sources are scopes parsed separately from the master (no shared objects)"],
    "match_finding": match_finding,
}
