"""C16, clause "every call returns": calls that could loop inside C code (regular expressions, big-number arithmetic) cannot
be interrupted by the in-process alarm of the harness, so this stream runs a fixed list of inputs in a child interpreter
with a wall-clock bound.  The inputs are improper names with a long proper prefix (name position of a document, of a
command-line argument, of a $(variable) reference) and long values; the unchanged library needs milliseconds for each."""
import json
import os
import subprocess
import sys

from vlib import Stream

INPUTS = [
    ["parse", "data_manager.default_output_filename-prefix = x\n"],
    ["parse", "refinement.main.number_of_macro_cycles.per_resolution_shell:first = 5\n"],
    ["parse", "a_rather_long_identifier_with_many_parts_0123456789_and_more! = 1\n"],
    ["parse", "s {\n  output.directory.for.the.final.refined.model.and.maps\xe9 = 1\n}\n"],
    ["parse", "x" * 200 + "- = 1\n"],
    ["parse", ".".join(["abc"] * 40) + ". = 1\n"],
    ["parse", "a = 1\n." + "h" * 80 + "-elp = 1\n"],
    ["arg", "data_manager.default_output_filename-prefix=x"],
    ["arg", "a_rather_long_identifier_with_many_parts_0123456789.and_more_of_it.x-y=1"],
    ["fetch", "a = $(a_long_variable_name.with_dots.and_even_more_components-oops)\n"],
    ["fetch", "a = $" + "v" * 60 + "-w\n"],
    ["fetch", "a = " + " ".join(["w%d" % i for i in range(400)]) + "\n"],
    ["extract", "a = " + "9" * 2000 + "\n"],
    ["extract", "a = " + "(" * 40 + "1" + ")" * 40 + "\n"],
]

CHILD = r'''
import sys, json, warnings
warnings.simplefilter("ignore")
import freephil
inputs = json.loads(sys.stdin.read())
master = freephil.parse("a = None\n  .type = int\nb = x\n")
for i, (kind, text) in enumerate(inputs):
    print("START %d" % i, flush=True)
    try:
        if kind == "parse":
            freephil.parse(text)
        elif kind == "arg":
            master.command_line_argument_interpreter().process(arg=text)
        elif kind == "fetch":
            master.fetch(source=freephil.parse(text))
        else:
            master.fetch(source=freephil.parse(text)).extract()
        print("END %d ok" % i, flush=True)
    except BaseException as e:
        print("END %d %s" % (i, type(e).__name__), flush=True)
print("DONE", flush=True)
'''


class Returns(Stream):
    """one case: the whole list in one child interpreter, bound 30 s (the unchanged library takes well under a second)"""
    name = "returns"
    cluster = "Parse"
    impl_timeout = 60.0
    BOUND = 30.0

    def corpus(self):
        return ["all"]

    def cases(self, rng, tier):
        return []

    def impl(self, case):
        env = dict(os.environ)
        env["PYTHONPATH"] = os.environ.get("VERIF_IMPL_SRC", "/repo/src")
        p = subprocess.Popen([sys.executable, "-W", "ignore", "-c", CHILD], stdin=subprocess.PIPE, stdout=subprocess.PIPE,
                             stderr=subprocess.DEVNULL, text=True, env=env, cwd="/tmp")
        try:
            out, _ = p.communicate(json.dumps(INPUTS), timeout=self.BOUND)
            lines = out.split("\n")
        except subprocess.TimeoutExpired:
            p.kill()
            out, _ = p.communicate()
            lines = (out or "").split("\n")
            started = [int(l.split()[1]) for l in lines if l.startswith("START")]
            i = started[-1] if started else 0
            return ["did-not-return", INPUTS[i][0], INPUTS[i][1][:120]]
        if "DONE" not in lines:
            return ["child-died", lines[-3:]]
        other = [l for l in lines if l.startswith("END") and l.split()[2] not in ("ok", "RuntimeError", "Sorry")]
        return ["ok", other]

    def requests(self, case, o):
        return []

    def model(self, case, replies, o):
        return o

    def prop(self, case, o):
        if o[0] == "did-not-return":
            return "%s of %r did not return within %d s" % (o[1], o[2], self.BOUND)
        if o[0] != "ok":
            return "the child interpreter ended abnormally: %r" % (o,)
        if o[1]:
            return "an exception other than RuntimeError / Sorry escaped: %r" % (o[1],)
        return None

    def tag(self, case, o):
        return o[0]


class ExtractOrder(Stream):
    """extract() of a parsed user document in which a switched-off ('!') object precedes or follows an active object of the
    same name, at any depth and in either order: only RuntimeError / Sorry may escape.  Oracle only."""
    name = "extract_order"
    cluster = "Parse"
    DOCS = [
        "!refine {\n  cycles = 3\n}\nrefine {\n  cycles = 5\n}\n",
        "refine {\n  cycles = 5\n}\n!refine {\n  cycles = 3\n}\n",
        "s {\n  !t {\n    a = 1\n  }\n  t {\n    a = 2\n  }\n}\n",
        "!x = 1\nx {\n  y = 2\n}\n",
        "x {\n  y = 2\n}\n!x = 1\n",
        "!x {\n  y = 2\n}\nx = 3\n",
        "!a = 1\n!a = 2\na = 3\n",
        "s {\n  !b = 1\n}\ns {\n  b {\n    c = 2\n  }\n}\n",
        "m = 1\n  .multiple = True\n!m = 2\n  .multiple = True\nm = 3\n  .multiple = True\n",
        "!g {\n  k = 1\n}\ng\n  .multiple = True\n{\n  k = 2\n}\ng\n  .multiple = True\n{\n  k = 3\n}\n",
    ]

    def __init__(self, ctx):
        super().__init__(ctx)
        import vlib
        self.fp = vlib.import_freephil()

    def corpus(self):
        return list(self.DOCS)

    def cases(self, rng, tier):
        names = ["a", "s", "refine"]
        for _ in range(60 if tier == "quick" else 600):
            n = rng.choice(names)
            parts = []
            for _ in range(rng.randint(2, 4)):
                dis = "!" if rng.random() < 0.5 else ""
                if rng.random() < 0.6:
                    parts.append("%s%s {\n  v = %d\n}\n" % (dis, n, rng.randint(0, 9)))
                else:
                    # a definition under the same name only switched off (an active definition and an active scope of one
                    # name is an ill-formed document)
                    parts.append("!%s = %d\n" % (n, rng.randint(0, 9)))
            yield "".join(parts)

    def impl(self, case):
        try:
            self.fp.parse(case).extract()
            return ["ok"]
        except (RuntimeError, self.fp.Sorry) as e:
            return ["refused", type(e).__name__]
        # anything else propagates: the harness reports the case as not completed

    def requests(self, case, o):
        return []

    def model(self, case, replies, o):
        return o

    def prop(self, case, o):
        return None

    def tag(self, case, o):
        return o[0]
