"""parse(file_name=...) of one document stored with LF, CR LF and CR line ends (shared by C02 and C15)."""
import parse_common as pc
from vlib import Stream, import_freephil


class FileLineEnds(Stream):
    """parse(file_name=...) of one document stored with LF, CR LF and CR line ends: files are read with universal newlines,
    so all three give the tree, the words and the line numbers of the LF text.  Oracle only."""
    name = "file_line_ends"
    cluster = "Parse"

    def __init__(self, ctx):
        super().__init__(ctx)
        self.fp = import_freephil()

    def cases(self, rng, tier):
        k = 0
        import c15
        for c in c15.Lines.cases(self, rng, tier):
            k += 1
            if "\r" in c["text"] or k % (6 if tier == "quick" else 3):
                continue
            yield c["text"]

    def view(self, t):
        import re
        out = []

        def line(w):
            m = re.search(r"line (\d+)\)$", w or "")
            return m.group(1) if m else "0"

        def walk(sc):
            for o in sc.objects:
                out.append([("!" if o.is_disabled else "") + o.name, line(o.where_str)])
                if o.is_definition:
                    out.extend([w.value, w.quote_token, line(w.where_str())] for w in o.words)
                else:
                    walk(o)
        walk(t)
        return out

    def one(self, **kw):
        import re
        try:
            return ["ok", self.view(self.fp.parse(**kw))]
        except RuntimeError as e:
            m = re.search(r"line (\d+)\)?$", str(e))
            return ["err", re.split(r" \(| at ", str(e))[0][:40], m.group(1) if m else "0"]   # message head (before any label), cited line

    def impl(self, case):
        import os, shutil, tempfile
        want = self.one(input_string=case)
        d = tempfile.mkdtemp(prefix="c15le_")
        try:
            for name, nl in (("lf", "\n"), ("crlf", "\r\n"), ("cr", "\r")):
                f = os.path.join(d, name + ".phil")
                with open(f, "wb") as fh:
                    fh.write(case.replace("\n", nl).encode("utf-8"))
                got = self.one(file_name=f)
                if got != want:
                    i = next((i for i, (a, b) in enumerate(zip(want[1] + [None], got[1] + [None])) if a != b), 0) \
                        if want[0] == got[0] == "ok" else 0
                    return ["differs", name, (want[1] + [None])[i] if want[0] == "ok" else want, (got[1] + [None])[i] if got[0] == "ok" else got]
            return ["ok"]
        finally:
            shutil.rmtree(d, ignore_errors=True)

    def requests(self, case, o):
        return []

    def model(self, case, replies, o):
        return o

    def prop(self, case, o):
        if o[0] == "differs":
            return "the file with %s line ends reads %r where the text gives %r" % (o[1].upper(), o[3], o[2])
        return None

    def tag(self, case, o):
        return o[0]

    def shrink(self, case):
        return pc.shrink_text(case)
