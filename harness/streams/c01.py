"""C01 - printing a PHIL tree and re-parsing the text reproduces the tree."""
import json
import os

import layout as L
import parse_common as pc
import vlib
from vlib import Stream, import_freephil, canon, objs_sx, exc_class

FREE_TEXT = ("help", "caption", "short_caption", "style", "alias", "deprecated", "sequential_format")


def norm_attrs(at, level):
    if level == 0:
        return []
    out = []
    for n, v in at:
        if v[0] == "str" and n in FREE_TEXT:
            v = ["str", " ".join(v[1].split())]
        out.append([n, v])
    return out


def truthy(v):
    if v[0] == "str":
        return v[1] != ""
    if v[0] == "bool":
        return v[1] == "1"
    if v[0] == "int":
        return v[1] != "0"
    return v[0] != "none"


def view(t, level):
    """What level 3 / 2 / 0 is meant to preserve of a canonical tree; None = not shown."""
    kind, h, body, at = t
    h2 = [h[0], h[1], h[2], h[3], "0", "0"]
    if kind == "def":
        dep = [v for n, v in at if n == "deprecated"]
        if level < 3 and dep and truthy(dep[0]):
            return None
        if level < 2 and int(h[2]) < 0:
            return None
        return [kind, h2, [[w[0], w[1], "0"] for w in body], norm_attrs(at, level)]
    if level < 2 and int(h[2]) < 0:
        return None
    kids = [view(k, level) for k in body]
    kids = [k for k in kids if k is not None]
    if body and body[0][1][3] == "1" and not kids:
        return None  # a scope that exists only as dotted prefix of hidden objects
    return [kind, h2, kids, norm_attrs(at, level)]


def views(ts, level):
    out = [view(t, level) for t in ts]
    return [t for t in out if t is not None]


class PrintParse(Stream):
    name = "print_parse"
    cluster = "Parse"

    def __init__(self, ctx):
        super().__init__(ctx)
        self.fp = import_freephil()
        self.aux = {}

    def corpus(self):
        return [
            # formerly F1: wrapped value line after a multi-line quoted word
            {"doc": 'a = "x\ny" "' + "z" * 30 + '" "' + "w" * 40 + '" q r\n', "level": 3, "width": 40},
            # formerly F2: long / hyphenated / whitespace-only help
            {"doc": 'a = 1\n.help = "' + "x" * 50 + " y-z " + '\\"' * 20 + '"\n', "level": 2, "width": 40},
            {"doc": 'a = 1\n.help = "' + " " * 60 + '"\n', "level": 3, "width": 40},
            # formerly printed unquoted and read back as the None / Auto objects (repaired in /repo 9a822a9)
            {"doc": 'a = 1\n.help = "None"\n.caption = "auto"\ns\n.help = "Auto"\n{\n}\n', "level": 2, "width": None},
            {"doc": 'a = 1\n.help = "none"\n.short_caption = "AUTO"\n', "level": 3, "width": 60},
            # formerly: an unquoted backslash word after a continuation backslash
            {"doc": "x = a \\ \\ b\ny = 1\n", "level": 3, "width": 79},
            # formerly F3
            {"doc": "a = 1\n.type = int(allow_none=False)\n", "level": 3, "width": 79},
            # bounds of float / floats types with 7 to 10 significant digits come back as written (round 9: %g kept six)
            {"doc": "a = 1 2\n.type = floats(value_min=0.1234567, value_max=12345678)\nb = 1\n.type = float(value_min=-1.234567891, value_max=1234567.125)\n",
             "level": 3, "width": 79},
            {"doc": "a = 1 2\n.type = floats(size_max=3, value_min=0.001234567)\nb = 1\n.type = float(value_max=99999.9999)\n", "level": 2, "width": None},
        ]

    def cases(self, rng, tier):
        n = 900 if tier == "quick" else 25000
        for i in range(n):
            at = L.gen_atree(rng, rich=True, maxn=3 if i % 3 else 5)
            if i % 4 == 0:
                doc = L.canonical_render(at)
            else:
                doc, _, _ = L.render(rng, at, stage_b=True)
            yield {"doc": doc, "level": rng.choice([0, 2, 3, 3]), "width": rng.choice([None, 40, 50, 60, 79, 79, 120, 100000])}

    def impl(self, case):
        fp = self.fp
        lv, w = case["level"], case["width"]
        o1, orc1, t1 = pc.impl_parse(fp, case["doc"], keep_tree=True)
        if t1 is None:
            self.aux[id(case)] = None
            return ["unparseable", o1]
        try:
            text = t1.as_str(attributes_level=lv, print_width=w)
        except Exception as e:  # noqa
            self.aux[id(case)] = None
            return ["print-failed", exc_class(e)]
        o2, orc2, t2 = pc.impl_parse(fp, text, keep_tree=True)
        text2 = None
        if t2 is not None:
            try:
                text2 = t2.as_str(attributes_level=lv, print_width=w)
            except Exception as e:  # noqa
                text2 = "!" + exc_class(e)
        self.aux[id(case)] = (orc1, orc2, objs_sx(t1), objs_sx(t2) if t2 is not None else None)
        # last field: the parsed tree lies in the domain of the tree-level theorems (dtree_ok), unless it
        # contains what that domain excludes by design (deprecated definitions, include lines)
        return ["ok", o1[1], text, o2, text2, "1", self.type_loss(t1, t2) if (t2 is not None and lv >= 2) else ""]

    @staticmethod
    def type_loss(t1, t2):
        """the converter objects behind .type compared attribute by attribute (numbers by value): the wire form of a float /
        floats type is its printed text, which cannot show digits that the printer itself drops (oracle only, round 9)"""
        def norm(v):
            if isinstance(v, bool) or v is None:
                return repr(v)
            if isinstance(v, (int, float)):
                try:
                    return "num:" + float(v).hex()
                except OverflowError:
                    return "int:" + repr(v)
            return repr(v) if isinstance(v, (str, tuple, list)) else type(v).__name__

        def tkey(t):
            if t is None:
                return None
            d = getattr(t, "__dict__", None)
            if d is None:
                d = {k: getattr(t, k, None) for k in getattr(type(t), "__slots__", ())}
            return [type(t).__name__] + sorted([k, norm(v)] for k, v in d.items())

        def defs(sc):
            for o in sc.objects:
                if o.is_definition:
                    yield o
                else:
                    yield from defs(o)
        a, b = list(defs(t1)), list(defs(t2))
        if [d.name for d in a] != [d.name for d in b]:
            return ""                                  # a structural difference: reported by the tree comparison
        for x, y in zip(a, b):
            kx, ky = tkey(x.type), tkey(y.type)
            if kx != ky:
                return "%s: %s -> %s" % (x.full_path(), json.dumps(kx)[:200], json.dumps(ky)[:200])
        return ""

    def requests(self, case, o):
        aux = self.aux.pop(id(case), None)
        if aux is None:
            return [("parse", [[], case["doc"]])] if o[0] == "unparseable" else []
        orc1, orc2, tree1, tree2 = aux
        lv, w = case["level"], case["width"]
        wx = [] if w is None else [w]
        reqs = [("parse", [orc1, case["doc"]]), ("show", [tree1, "", [], lv, wx]), ("parse", [orc2, o[2]])]
        reqs.append(("dtreeok", tree1))
        if tree2 is not None:
            reqs.append(("show", [tree2, "", [], lv, wx]))
        return reqs

    def model(self, case, replies, o):
        if o[0] == "unparseable":
            m = pc.model_parse_obs(replies[0]) if replies else "UNMODELLED"
            return "UNMODELLED" if m == "UNMODELLED" else ["unparseable", m]
        if o[0] != "ok":
            return o
        p1 = pc.model_parse_obs(replies[0])
        sh = replies[1]
        p2 = pc.model_parse_obs(replies[2])
        if p1 == "UNMODELLED" or p2 == "UNMODELLED" or (sh[0] == "uerr" and sh[1] == "Unmodelled"):
            return "UNMODELLED"
        if p1[0] != "ok" or sh[0] != "ok":
            return ["model-differs", p1[:1], sh[:2]]
        dt = replies[3]
        if ".deprecated" in case["doc"] or "include" in case["doc"]:
            dt = "1"
        text2 = None
        if len(replies) > 4:
            s2 = replies[4]
            if s2[0] == "uerr" and s2[1] == "Unmodelled":
                return "UNMODELLED"
            text2 = s2[1] if s2[0] == "ok" else "!" + s2[1]
        return ["ok", p1[1], sh[1], p2, text2, dt, o[6] if len(o) > 6 else ""]

    def in_domain(self, case):
        return True

    def prop(self, case, o):
        if o[0] != "ok":
            return None if o[0] == "unparseable" else "printing failed: %s" % o[1]
        lv = case["level"]
        t1, text, p2, text2 = o[1], o[2], o[3], o[4]
        if p2[0] != "ok":
            return "printed text does not parse: %s" % json.dumps(p2)[:200]
        want = views(t1, lv)
        got = views(p2[1], lv)
        if want != got:
            return "re-parsed tree differs: %s vs %s" % (json.dumps(got)[:400], json.dumps(want)[:400])
        if text2 != text:
            return "printing the re-parsed tree is not byte-identical"
        if len(o) > 6 and o[6]:
            return "the .type of the re-parsed definition differs from the printed one: %s" % o[6]
        return None

    def key(self, case, o):
        return json.dumps(case, sort_keys=True) if o[0] == "ok" and o[1] else None

    def tag(self, case, o):
        if o[0] != "ok":
            return o[0]
        wrapped = " \\\n" in o[2] or '"\n' in o[2]
        return "level%d%s" % (case["level"], "+wrap" if wrapped else "")

    def shrink(self, case):
        for t in pc.shrink_text(case["doc"]):
            yield {"doc": t, "level": case["level"], "width": case["width"]}

    def neighbours(self, case, rng):
        yield from self.shrink(case)
        for lv in (0, 2, 3):
            for w in (None, 40, 60, 100000):
                yield {"doc": case["doc"], "level": lv, "width": w}


class Clone(Stream):
    """The observation point scope.clone(): clone() prints the formatted tree at attributes level 3 and parses it again, so
    every parameter of the master - deprecated ones included, which only level 3 prints - comes back with its value.  Masters
    without .multiple objects (their collapse is C09's subject), values without '$'.  Oracle only."""
    name = "clone"
    cluster = "Parse"
    LEAVES = [("int", ["1", "-3", "None"]), ("str", ["x", '"two words"', '"a#b"', "None"]), ("bool", ["True", "no", "None"]),
              ("strings", ["a b", '"p q" r', "None"]), ("float", ["1.5", "None"]), ("choice", ["*u v", "u *v"]), ("words", ["k l"]),
              ("ints", ["1 2", "None"]), ("qstr", ['"q  s"'])]
    NAMES = ["a", "old_name", "s.b", "s.legacy.flag", "t.u.v", "t.w", "z"]

    def __init__(self, ctx):
        super().__init__(ctx)
        self.fp = import_freephil()

    def corpus(self):
        return [{"defs": [["a", "int", "1", False], ["old_name", "int", "5", True], ["s.b", "str", "x", False],
                          ["s.legacy.flag", "strings", "y z", True]], "braces": True},
                {"defs": [["old_name", "bool", "True", True]], "braces": False}]

    def cases(self, rng, tier):
        for _ in range(80 if tier == "quick" else 1500):
            names = [n for n in self.NAMES if rng.random() < 0.6] or ["a"]
            defs = []
            for n in names:
                ty, vals = rng.choice(self.LEAVES)
                defs.append([n, ty, rng.choice(vals), rng.random() < 0.4])
            yield {"defs": defs, "braces": rng.random() < 0.5}

    @staticmethod
    def text(case):
        out = []
        if case["braces"]:
            # group by first component, nested braces
            def emit(prefix, items, ind):
                seen = []
                for n, ty, v, dep in items:
                    head = n.split(".")[0]
                    if head in seen:
                        continue
                    seen.append(head)
                    same = [(m.split(".", 1)[1], t2, v2, d2) for m, t2, v2, d2 in items if m.split(".")[0] == head and "." in m]
                    if same:
                        out.append("%s%s {" % (ind, head))
                        emit(prefix + head + ".", same, ind + "  ")
                        out.append("%s}" % ind)
                    else:
                        out.append("%s%s = %s" % (ind, head, v))
                        out.append("%s  .type = %s" % (ind, ty))
                        if dep:
                            out.append("%s  .deprecated = True" % ind)
            emit("", [tuple(d) for d in case["defs"]], "")
        else:
            for n, ty, v, dep in case["defs"]:
                out.append("%s = %s" % (n, v))
                out.append("  .type = %s" % ty)
                if dep:
                    out.append("  .deprecated = True")
        return "\n".join(out) + "\n"

    def flatten(self, ext, path=""):
        res = {}
        for name, value in sorted(ext.__dict__.items()):
            if name.startswith("__"):
                continue
            if isinstance(value, self.fp.scope_extract):
                res.update(self.flatten(value, path + name + "."))
            else:
                if isinstance(value, list) and value and hasattr(value[0], "quote_token"):
                    value = [(w.value, w.quote_token) for w in value]      # .type = words: the word objects themselves
                res[path + name] = repr(value)
        return res

    def impl(self, case):
        try:
            master = self.fp.parse(self.text(case))
            original = master.extract()
        except (RuntimeError, self.fp.Sorry) as e:
            return ["refused", exc_class(e)]
        want = self.flatten(original)
        try:
            got = self.flatten(master.clone(python_object=original))
        except (RuntimeError, self.fp.Sorry) as e:
            return ["clone-refused", str(e)[:120]]
        return ["ok", want, got]

    def requests(self, case, o):
        return []

    def model(self, case, replies, o):
        return o

    def prop(self, case, o):
        if o[0] == "clone-refused":
            return "clone() of the master's own extraction is refused: %s" % o[1]
        if o[0] == "ok" and o[1] != o[2]:
            miss = [k for k in o[1] if k not in o[2]]
            if miss:
                return "parameter(s) %s missing from clone()" % ", ".join(miss)
            k = [k for k in o[1] if o[1][k] != o[2].get(k)][0]
            return "clone(): %s was %s, comes back as %s" % (k, o[1][k], o[2].get(k))
        return None

    def tag(self, case, o):
        return o[0]


class FileRoute(Stream):
    """The printed text read back from a FILE (parse(file_name=...), what the phil tool, include files and file arguments of
    the command line do) gives the tree that the same text gives as a string: in particular lines inside a multi-line quoted
    word, or continuation lines of a wrapped value, that LOOK like directives ('#phil __END__', '#phil __OFF__') are content.
    Oracle only."""
    name = "file_route"
    cluster = "Parse"
    INNER = ["#phil __END__", "#phil __OFF__", "#phil __ON__", "#phil", "}", "include file x", "!a = 1", " #phil __END__ ", "\x0c", "a = \"", "\\"]
    TQ = "'" * 3

    def __init__(self, ctx):
        super().__init__(ctx)
        self.fp = import_freephil()

    def corpus(self):
        return [{"doc": 'a = "first line\n#phil __END__\nlast line"\nb = 2\n', "level": 3, "width": None},
                {"doc": 'a = x\n  .help = "two lines\n#phil __END__\nof help"\nb = 2\n', "level": 3, "width": 1000},
                {"doc": "a = " + " ".join(["word%d" % i for i in range(9)]) + ' "#phil" __END__ tail\nb = 2\n', "level": 0, "width": 40},
                {"doc": "s {\n  a = " + self.TQ + "x\n#phil __OFF__\ny" + self.TQ + "\n}\nb = 2\n", "level": 2, "width": None}]

    def cases(self, rng, tier):
        for i in range(60 if tier == "quick" else 1500):
            if i % 3 == 0:
                at = L.gen_atree(rng, rich=True, expert=False, maxn=3)
                doc = L.canonical_render(at)
            else:
                q = rng.choice(['"', "'", '"' * 3, self.TQ])
                inner = rng.choice(self.INNER)
                k = rng.randrange(3)
                if k == 0:
                    doc = "a = %sx\n%s\ny%s\nb = 2\n" % (q, inner, q)
                elif k == 1:
                    doc = "s {\n  a = 1 %sp\n%s\n%s q%s t\n  c = 3\n}\nb = 2\n" % (q, inner, inner, q)
                else:
                    doc = "a = 1\n  .help = %sh\n%s\nk%s\nb = 2\n" % (q, inner, q)
            yield {"doc": doc, "level": rng.choice([0, 2, 3]), "width": rng.choice([None, 40, 79, 1000])}

    def impl(self, case):
        import re as _re
        import shutil
        import tempfile
        fp = self.fp
        try:
            t0 = fp.parse(case["doc"])
            text = t0.as_str(attributes_level=case["level"], print_width=case["width"])
        except (RuntimeError, fp.Sorry) as e:
            return ["unparseable", exc_class(e)]
        if "\r" in text:
            return ["skip-cr"]                  # universal newlines translate a CR inside a quoted word: C02 / C15's stream

        def obs(thunk):
            try:
                t = thunk()
                return ["ok", t.as_str(attributes_level=3), t.as_str(attributes_level=0)]
            except (RuntimeError, fp.Sorry) as e:
                return ["refused", _re.sub(r"\(.*?line", "(line", str(e))[:160]]
        d = tempfile.mkdtemp(prefix="c01f_")
        try:
            f = os.path.join(d, "printed.phil")
            with open(f, "w", newline="") as fh:
                fh.write(text)
            a = obs(lambda: fp.parse(input_string=text))
            b = obs(lambda: fp.parse(file_name=f))
            return ["ok"] if a == b else ["differs", a, b, text[:300]]
        finally:
            shutil.rmtree(d, ignore_errors=True)

    def requests(self, case, o):
        return []

    def model(self, case, replies, o):
        return o

    def prop(self, case, o):
        if o[0] == "differs":
            return "the printed text %r parses from a string to %r, from a file to %r" % (o[3], o[1], o[2])
        return None

    def tag(self, case, o):
        return o[0]


SPEC = {
    "clusters": ["Parse"],
    "streams": [PrintParse, Clone, FileRoute],
    "rule": "abstract trees with rich content (every built-in type with constructor arguments, long/hyphenated/tabbed/whitespace-only/multi-line "
            "help texts, up to 16 words per value incl. multi-line quoted words, dotted names, '!', deprecated) rendered by the layout sampler, "
            "x attributes level in {0,2,3} x print width in {None,40..120,100000}; freephil and the model each do parse -> print -> parse -> print; "
            "distinct = distinct (doc, level, width); non-trivial = parses to at least one object",
    "trusted": ["Modelled: parser (as C02), printer (show_attributes, definition.show, scope.show, str(converter) for non-float built-ins), "
                "textwrap.wrap for the options the code passes (breaks at ASCII blanks only); float-typed converters are carried as printed text",
                "print widths below 40 are outside the stream (the property's proviso: width must exceed the attribute indentation)"],
    "modelled": "tree-level round trip checked by correspondence + oracle; theorems in C01.v are listed there with their scope",
    "assumptions": ["text restricted to code points < 256"],
}
