"""C13 - includes behave as textual inlining; every include cycle is detected.

Streams
  paths      posixpath model (isabs, join, normpath, dirname, abspath) vs os.path
  graphs     every include graph over 3 files with 0-2 ordered includes each (quick, exhaustive:
             13^3 = 2197) / sampled graphs over 4 files with 0-3 includes (thorough), files in
             different directories, the call made from two other current directories
  malformed  ill-formed / unusual include lines, missing files, parse errors, string root
  include_scope  'include scope <module.object> [<sub.path>]' with Python-level targets (strings, scope
             objects, callables; nested include file / include scope lines inside the targets), written
             as a module into the per-run directory; oracle-only (the model answers Unmodelled)

Files are written below a fresh directory made with tempfile.mkdtemp(dir="/tmp") (never under
/repo or /verif) and removed at exit.  A case holds only relative names and file texts; the
marker @ROOT@ inside a text stands for the absolute name of the per-run directory.
"""
import atexit
import itertools
import json
import os
import posixpath
import re
import shutil
import sys
import tempfile

from vlib import Stream, exc_class, err_line, import_freephil, canon, obj_sx, strip_tree

_TMP = None


def tmp_root():
    """Per-run scratch directory under /tmp, removed at exit."""
    global _TMP
    if _TMP is None:
        _TMP = tempfile.mkdtemp(prefix="c13_", dir="/tmp")
        atexit.register(shutil.rmtree, _TMP, True)
    return _TMP


def base_dir():
    return tmp_root() + "/w"


MARK = "@ROOT@"
CYCLE_PREFIX = "Include dependency cycle: "


# ----------------------------------------------------------------------------- helpers
def subst(text, base):
    return text.replace(MARK, base)


_STATE = {"files": {}, "dirs": set()}


def materialise(case):
    """Make the directory below base_dir() hold exactly the case's files (texts with @ROOT@
    replaced); only what differs from the previous case is rewritten.  Returns base."""
    base = base_dir()
    if not os.path.isdir(base):
        os.makedirs(base)
        _STATE["files"].clear()
        _STATE["dirs"].clear()
    want = {rel: subst(text, base) for rel, text in case["files"]}
    for rel in list(_STATE["files"]):
        if rel not in want:
            os.unlink(base + "/" + rel)
            del _STATE["files"][rel]
    for d in list(case.get("dirs", [])) + [posixpath.dirname(rel) for rel in want]:
        if d not in _STATE["dirs"]:
            os.makedirs(base + "/" + d, exist_ok=True)
            _STATE["dirs"].add(d)
    for rel, text in want.items():
        if _STATE["files"].get(rel) != text:
            data = text.encode("latin-1")
            # (no O_TRUNC: truncating to zero is slow on the sandbox's file system)
            fd = os.open(base + "/" + rel, os.O_WRONLY | os.O_CREAT, 0o644)
            try:
                os.write(fd, data)
                os.ftruncate(fd, len(data))
            finally:
                os.close(fd)
            _STATE["files"][rel] = text
    return base


def frame_depth():
    f = sys._getframe()
    n = 0
    while f is not None:
        n += 1
        f = f.f_back
    return n


def strip_base(p, base):
    """name below the per-run directory; "//x" (which normpath keeps) is the file "/x" """
    if p.startswith("//") and not p.startswith("///"):
        p = p[1:]
    return p[len(base):] if p.startswith(base + "/") else p


def tree_obs(scope):
    return ["ok", [strip_tree(canon(obj_sx(o))) for o in scope.objects]]


def err_obs(e, base):
    cls = exc_class(e)
    if isinstance(e, OSError):
        return ["err", "other:OSError", "", "0", []]
    if isinstance(e, RecursionError):  # a RuntimeError subclass, but never a deliberate refusal
        return ["err", "other:RecursionError", "", "0", []]
    msg = str(e)
    if cls == "RuntimeError" and msg.startswith(CYCLE_PREFIX):
        chain = [strip_base(p, base) for p in msg[len(CYCLE_PREFIX):].split(", ")]
        return ["err", cls, "cycle", "0", chain]
    return ["err", cls, "rt" if cls == "RuntimeError" else "", str(err_line(msg)), []]


def model_obs(reply, base):
    if reply[0] == "ok":
        return ["ok", [strip_tree(t) for t in reply[1]]]
    if reply[0] == "uerr":
        kind, tok, line = reply[1], reply[2], reply[3]
        if kind == "Unmodelled":
            return "UNMODELLED"
        if kind == "IncludeCycle":
            return ["err", "RuntimeError", "cycle", line, [strip_base(p, base) for p in tok.split(", ")]]
        return ["err", "RuntimeError", "rt", line, []]
    if reply[0] == "crash" and reply[1] == "FileNotFoundError":
        return ["err", "other:OSError", "", "0", []]
    return ["err", "model:" + "/".join(str(x) for x in reply), "", "0", []]


# the harness's own reading of the generated (line-oriented) texts: which include lines are active
INC_RE = re.compile(r'^include\s+(?:file|FILE|File)\s+("?)([^\s"]+)\1$')


def scan(text):
    """Yield (line, include-name-or-None) with include names only for active include-file lines
    (not disabled, not below a disabled scope).  Generated texts put braces on their own lines."""
    depth = 0
    dis = None
    for line in text.split("\n"):
        s = line.strip()
        name = None
        if s.endswith("{"):
            if dis is None and s.startswith("!"):
                dis = depth
            depth += 1
        elif s == "}":
            depth -= 1
            if dis is not None and depth == dis:
                dis = None
        elif dis is None:
            m = INC_RE.match(s)
            if m:
                name = m.group(2)
        yield line, name


def resolve_rel(includer_rel, name, base):
    """relative name (below base) of the file an include line in includer_rel refers to"""
    name = subst(name, base)
    if not name.startswith("/"):
        name = posixpath.dirname(base + "/" + includer_rel) + "/" + name
    return strip_base(posixpath.normpath(name), base).lstrip("/")


def edges_of(case, base):
    return {rel: [resolve_rel(rel, n, base) for _, n in scan(text) if n is not None]
            for rel, text in case["files"]}


def cycle_reachable(edges, root):
    """does some walk from root return to a file it has passed?"""
    state = {}

    def dfs(n):
        state[n] = 1
        for m in edges.get(n, []):
            if state.get(m) == 1:
                return True
            if m not in state and dfs(m):
                return True
        state[n] = 2
        return False

    return dfs(root)


def inline_text(files, rel, base, depth=0):
    """textual inlining: every active include-file line replaced by the (inlined) text of the file"""
    if depth > 50:
        raise RecursionError("inliner: cyclic")
    out = []
    for line, name in scan(files[rel]):
        if name is None:
            out.append(line)
        else:
            out.append(inline_text(files, resolve_rel(rel, name, base), base, depth + 1))
    return "\n".join(out)


# ----------------------------------------------------------------------------- paths
PATH_ALPHA = ["a", "b", ".", "..", "/", "//"]
CWDS = {"root": "/", "tmp": "/tmp", "T": None}


class Paths(Stream):
    """posixpath functions of the model vs os.path (abspath under a real chdir)."""
    name = "paths"
    cluster = "Include"

    def corpus(self):
        return [["T", "", ""], ["root", "//", "a"], ["tmp", "///a/../..", "/b"], ["T", "a/./b/..//", "../b"],
                ["root", "..", ""], ["tmp", "//a//", "b/"]]

    def cases(self, rng, tier):
        maxlen = 5 if tier == "quick" else 6
        pool = []
        seen = set()
        for n in range(maxlen + 1):
            for t in itertools.product(PATH_ALPHA, repeat=n):
                p = "".join(t)
                if p not in seen:
                    seen.add(p)
                    pool.append(p)
        cw = sorted(CWDS)
        for i, p in enumerate(pool):
            yield [cw[i % 3], p, pool[rng.randrange(min(len(pool), 400))]]
        for i in range(12000 if tier == "quick" else 40000):
            p = "".join(rng.choice(PATH_ALPHA) for _ in range(rng.randint(maxlen + 1, 14)))
            q = "".join(rng.choice(PATH_ALPHA) for _ in range(rng.randint(0, 5)))
            yield [cw[i % 3], p, q]

    def cwd(self, code):
        return CWDS[code] or tmp_root()

    def impl(self, case):
        code, p, q = case
        old = os.getcwd()
        try:
            os.chdir(self.cwd(code))
            ab = os.path.abspath(p)
        finally:
            os.chdir(old)
        return canon([os.path.isabs(p), os.path.join(p, q), os.path.normpath(p), os.path.dirname(p), ab])

    def requests(self, case, o):
        code, p, q = case
        return [("paths", [self.cwd(code), p, q])]

    def model(self, case, replies, o):
        return replies[0]

    def key(self, case, o):
        return case[1] or None

    def tag(self, case, o):
        p = case[1]
        return ("abs2" if p.startswith("//") and not p.startswith("///") else "abs" if p.startswith("/") else "rel") \
            + ("+dd" if ".." in p else "")

    def shrink(self, case):
        code, p, q = case
        for i in range(len(p)):
            yield [code, p[:i] + p[i + 1:], q]
        for i in range(len(q)):
            yield [code, p, q[:i] + q[i + 1:]]


# ----------------------------------------------------------------------------- include runs
class IncludeStream(Stream):
    cluster = "Include"
    impl_timeout = 10.0

    def __init__(self, ctx):
        super().__init__(ctx)
        self.fp = import_freephil()

    def run_once(self, case, base, cwd_rel):
        fp = self.fp
        root = base + "/" + case["root"]
        old = os.getcwd()
        lim = sys.getrecursionlimit()
        try:
            os.chdir(base + "/" + cwd_rel)
            # legitimate nesting here is a handful of files deep; a low limit makes an unbounded
            # include recursion show up as RecursionError at once instead of after 10^4 frames
            sys.setrecursionlimit(min(lim, frame_depth() + 200))
            try:
                if case["mode"] == "abs":
                    t = fp.parse(file_name=root, process_includes=True)
                elif case["mode"] == "rel":
                    t = fp.parse(file_name=os.path.relpath(root, base + "/" + cwd_rel), process_includes=True)
                else:
                    t = fp.parse(input_string=subst(dict(case["files"])[case["root"]], base), process_includes=True)
                return tree_obs(t), t
            except Exception as e:  # noqa
                return err_obs(e, base), None
        finally:
            sys.setrecursionlimit(lim)
            os.chdir(old)

    def inline_check(self, case, base, tree):
        """the text-level clause, on the implementation: parse(inlined text) prints like the
        include-processed tree"""
        if not case.get("wf") or tree is None:
            return "n/a"
        files = {rel: subst(text, base) for rel, text in case["files"]}
        try:
            text = inline_text(files, case["root"], base)
            want = self.fp.parse(input_string=text).as_str(attributes_level=3)
        except Exception as e:  # noqa
            return "inlined text does not parse: %s" % type(e).__name__
        got = tree.as_str(attributes_level=3)
        return "same" if got == want else "differs"

    def impl(self, case):
        base = materialise(case)
        o1, t1 = self.run_once(case, base, case["cwd"][0])
        o2, _ = self.run_once(case, base, case["cwd"][1])
        return [o1, o2, self.inline_check(case, base, t1)]

    def table(self, case, base):
        """the file-system + parser oracle: every file parsed by the real parser, no include processing"""
        cache = self.__dict__.setdefault("_tab_cache", {})
        tab = []
        for rel, text in case["files"]:
            ent = cache.get(text)
            if ent is None:
                try:
                    t = self.fp.parse(input_string=subst(text, base))
                    ent = ["ok", [obj_sx(o) for o in t.objects]]
                except RuntimeError as e:
                    ent = ["bad", err_line(str(e))]
                except Exception:  # noqa - not a refusal of the parser: the model will disagree, as it should
                    ent = ["bad", 0]
                if len(cache) > 20000:
                    cache.clear()
                cache[text] = ent
            tab.append([base + "/" + rel, ent])
        return tab

    def requests(self, case, o):
        """one request per case: the file table once, one call per current directory"""
        base = base_dir()
        tab = self.table(case, base)
        root = base + "/" + case["root"]
        mode = "f"
        calls = []
        for cwd_rel in case["cwd"]:
            cwd = base + "/" + cwd_rel
            if case["mode"] == "abs":
                calls.append([cwd, root])
            elif case["mode"] == "rel":
                calls.append([cwd, os.path.relpath(root, cwd)])
            else:
                ent = [e for p, e in tab if p == root][0]
                if ent[0] != "ok":
                    calls.append([cwd, root])       # the root text does not parse: same refusal as for the file
                else:
                    mode = "s"
                    calls.append([cwd, ent[1]])
        return [("includes", [mode, calls, tab])]

    def model(self, case, replies, o):
        base = base_dir()
        if replies[0] == ["badinput"]:
            return ["model:badinput"]
        ms = [model_obs(r, base) for r in replies[0]]
        if "UNMODELLED" in ms:
            return "UNMODELLED"
        return [ms[0], ms[1], o[2]]

    def key(self, case, o):
        return json.dumps([case["files"], case["root"], case["mode"]], sort_keys=True)

    def shrink(self, case):
        # drop one plain line (never a brace line, so generated texts stay well-formed)
        for i, (rel, text) in enumerate(case["files"]):
            lines = text.split("\n")
            for j, l in enumerate(lines):
                s = l.strip()
                if not s or s.endswith("{") or s == "}":
                    continue
                c = dict(case)
                c["files"] = [list(x) for x in case["files"]]
                c["files"][i][1] = "\n".join(lines[:j] + lines[j + 1:])
                yield c
        for i, (rel, text) in enumerate(case["files"]):
            if rel != case["root"] and rel.startswith("elsewhere"):
                c = dict(case)
                c["files"] = [list(x) for k, x in enumerate(case["files"]) if k != i]
                yield c


FILES3 = ["root/a.phil", "root/sub/b.phil", "root/sub/deep/c.phil"]
FILES4 = FILES3 + ["root/other/d.phil"]
DIRS = ["root", "root/sub", "root/sub/deep", "root/other", "elsewhere", "elsewhere/sub"]
# same base names next to the two current directories: picked up only by a wrong resolution
DECOYS = [["elsewhere/a.phil", "decoy_a = 1\n"], ["elsewhere/sub/b.phil", "decoy_sb = 1\n"],
          ["root/sub/a.phil", "decoy_sa = 1\n"], ["root/sub/sub/b.phil", "decoy_ssb = 1\n"],
          ["root/sub/deep/deep/c.phil", "decoy_ddc = 1\n"], ["elsewhere/other/d.phil", "decoy_d = 1\n"]]


def spell(rng, includer, target):
    """a way of writing `target` in an include line of `includer` (all directories named exist)"""
    d = posixpath.dirname(includer)
    rel = posixpath.relpath(target, d)
    k = rng.randrange(17)
    if k == 16:
        return "/" + MARK + "/" + target                            # "//tmp/...": same file, another name
    k = k % 8
    if k <= 2:
        return rel
    if k == 3:
        return "./" + rel
    if k == 4:
        return MARK + "/" + target
    if k == 5:
        return "../" + posixpath.basename(d) + "/" + rel          # detour through the parent
    if k == 6:
        return ".//" + rel.replace("/", "//")
    return '"' + rel + '"'


def render_file(rng, idx, includer, targets):
    """text of one file: ordinary definitions and scopes around the include lines"""
    tag = "abcd"[idx]
    if not targets and idx > 0 and rng.randrange(4) == 0:
        # a leaf without any object: empty, blank or comment-only (included twice it is still no cycle)
        return rng.choice(["", "\n\n", "# nothing here yet\n", "  \n# c1\n# c2\n"])
    lines = ["%s0 = %d" % (tag, idx)]
    for j, t in enumerate(targets):
        name = spell(rng, includer, t)
        kw = "file" if rng.randrange(6) else rng.choice(["FILE", "File"])
        inc = "include %s %s" % (kw, name)
        place = rng.randrange(4)
        if place <= 1:
            lines.append(inc)
        elif place == 2:
            lines += ["s%s%d {" % (tag, j), "  x = %d" % j, "  " + inc, "  y = %d" % j, "}"]
        else:
            lines += ["s%s%d {" % (tag, j), "  t {", "    " + inc, "  }", "  z = 0", "}"]
        if rng.randrange(2):
            lines.append("%s%d = v%d" % (tag, j + 1, j))
    if rng.randrange(4) == 0:
        lines.append("!include file nowhere.phil")
    if rng.randrange(4) == 0:
        lines += ["!off%s {" % tag, "  include file %s" % posixpath.basename(includer), "}"]
    lines.append("%s_end = 1" % tag)
    return "\n".join(lines) + "\n"


def graph_case(rng, files, incs):
    """incs: per file a tuple of target indices"""
    fl = [[f, render_file(rng, i, f, [files[t] for t in incs[i]])] for i, f in enumerate(files)]
    mode = "abs" if rng.randrange(4) else "rel"
    return {"files": fl + DECOYS, "dirs": DIRS, "root": files[0], "mode": mode,
            "cwd": ["elsewhere", "root/sub"], "wf": True}


class Graphs(IncludeStream):
    name = "graphs"

    def corpus(self):
        mk = lambda a, b, c: {"files": [["root/a.phil", a], ["root/sub/b.phil", b], ["root/sub/deep/c.phil", c]] + DECOYS,
                              "dirs": DIRS, "root": "root/a.phil", "mode": "abs", "cwd": ["elsewhere", "root/sub"], "wf": True}
        return [
            # diamond: b twice, c via b and directly
            mk("include file sub/b.phil\ns {\n  include file ./sub/b.phil\n}\ninclude file sub/deep/c.phil\n",
               "b = 1\ninclude file deep/c.phil\n", "c = 1\n"),
            # 3-cycle through the last include of the innermost file
            mk("a = 1\ninclude file sub/b.phil\n", "include file deep/c.phil\n", "c = 1\ninclude file ../b.phil\n"),
            # self include
            mk("include file a.phil\n", "b = 1\n", "c = 1\n"),
            # cycle not through the root
            mk("include file sub/b.phil\n", "include file deep/c.phil\n", "include file ../../sub/b.phil\n"),
            # an empty and a comment-only file included twice / reached along two branches: no cycle
            mk("a = 1\ninclude file sub/deep/c.phil\nb = 2\ninclude file sub/deep/c.phil\nx = 3\n", "b = 1\n", ""),
            mk("include file sub/deep/c.phil\ninclude file sub/b.phil\n", "b = 1\ns {\n  include file deep/c.phil\n}\n", "# only a comment\n"),
        ]

    def cases(self, rng, tier):
        if tier == "quick":
            opts = [()] + [(i,) for i in range(3)] + [(i, j) for i in range(3) for j in range(3)]
            for incs in itertools.product(opts, repeat=3):
                yield graph_case(rng, FILES3, incs)
            yield from self.dags(rng, 600)
        else:
            opts = [()] + [(i,) for i in range(3)] + [(i, j) for i in range(3) for j in range(3)]
            for incs in itertools.product(opts, repeat=3):
                yield graph_case(rng, FILES3, incs)
            for _ in range(30000):
                incs = [tuple(rng.randrange(4) for _ in range(rng.choice([0, 1, 1, 2, 2, 3]))) for _ in range(4)]
                yield graph_case(rng, FILES4, incs)
            yield from self.dags(rng, 2000)

    def dags(self, rng, n):
        """acyclic graphs over 4 files (includes point to later files only): chains and diamonds,
        the same file reached along several branches"""
        for _ in range(n):
            incs = [tuple(rng.randrange(i + 1, 4) for _ in range(rng.choice([1, 2, 2, 3]))) if i < 3 else ()
                    for i in range(4)]
            yield graph_case(rng, FILES4, incs)

    def prop(self, case, o):
        base = base_dir()
        r1, r2, inl = o
        if r1 != r2:
            return "result depends on the current directory: %r vs %r" % (r1, r2)
        if r1[0] == "err" and r1[1] == "other:RecursionError":
            return "RecursionError"
        edges = edges_of(case, base)
        root = case["root"]
        if cycle_reachable(edges, root):
            if r1[0] != "err" or r1[1] != "RuntimeError" or r1[2] != "cycle":
                return "a cycle is reachable from the root but the outcome is %r" % (r1[:3],)
            chain = [c.lstrip("/") for c in r1[4]]
            if len(chain) < 2 or chain[0] != root or chain[-1] not in chain[:-1]:
                return "reported chain %r does not start at the root / end in a repeated file" % (chain,)
            for a, b in zip(chain, chain[1:]):
                if b not in edges.get(a, []):
                    return "reported chain %r: %s does not include %s" % (chain, a, b)
        else:
            if r1[0] != "ok":
                return "no cycle reachable from the root but the outcome is %r" % (r1,)
            if inl != "same":
                return "tree is not the tree of the textually inlined text (%s)" % inl
        return None

    def tag(self, case, o):
        r = o[0]
        return case["mode"] + ":" + (r[0] if r[0] == "ok" else r[2] or r[1])

    def neighbours(self, case, rng):
        return self.shrink(case)


WORDS = ["include", "file", "FILE", "File", "scope", "foo", "sub/b.phil", "b.phil", "x", "'file'", '"sub/b.phil"',
         "$x", "!include", ";", "=", "a.b", "nonexist.phil", "sub", '""', "libtbx.phil", "sub/deep/c.phil",
         "'sub/b.phil'", "$(y)", "'$x'", "\\"]


class Malformed(IncludeStream):
    """Unusual include lines; correspondence only (plus cwd independence as the oracle)."""
    name = "malformed"

    def mk(self, a, b="b = 1\n", mode="abs"):
        return {"files": [["root/a.phil", a], ["root/sub/b.phil", b], ["root/sub/deep/c.phil", "c = 3\n"]] + DECOYS[:4],
                "dirs": DIRS, "root": "root/a.phil", "mode": mode, "cwd": ["elsewhere", "root/sub"] if mode != "str" else ["root", "root"]}

    def fixed(self):
        lines = ["include", "include file", "include file a b", "include file sub/b.phil x", "include foo x",
                 "include FILE sub/b.phil", "include File sub/b.phil", "!include file x", "include = file x",
                 "include 'file' sub/b.phil", "include file 'sub/b.phil'", "include file $x", "include file '$x'",
                 "include $t sub/b.phil", "include file nonexist.phil", "include file sub", 'include file ""',
                 "include scope", "include scope a b c d", "include scope a b c", "include scope nonexisting.module.x",
                 "include file sub/b.phil; x = 1", "x = 1; include file sub/b.phil; y = 2", "include file a.phil",
                 "include file ../root/a.phil", "include file /@ROOT@/root/a.phil", "include file /@ROOT@/root/sub/b.phil",
                 "include file //@ROOT@/root/sub/b.phil", "include\nfile sub/b.phil", "include file \\\n sub/b.phil",
                 "include file sub/b.phil # comment", "include.x = 1", "include {\n}", "x.include = 1"]
        for l in lines:
            yield self.mk("p = 0\n" + l + "\nq = 1\n")
            yield self.mk("p = 0\ns {\n  " + l + "\n}\nq = 1\n")
            yield self.mk("p = 0\n!s {\n  " + l + "\n}\nq = 1\n")
            yield self.mk("include file sub/b.phil\nq = 1\n", "b = 1\n" + l.replace("sub/b.phil", "deep/c.phil") + "\n")
            yield self.mk("p = 0\n" + l + "\nq = 1\n", mode="str")
        # string root: relative names resolve against the current directory
        yield self.mk("include file sub/b.phil\ninclude file a.phil\n", "include file deep/c.phil\n", mode="str")
        yield self.mk("s {\n include file sub/b.phil\n}\n", "include file ../sub/b.phil\n", mode="str")
        yield self.mk("include file a.phil\n", mode="rel")
        yield self.mk("include file sub/b.phil\n", "b = 1\nx {\n", mode="abs")
        yield self.mk("x {\n", mode="abs")

    def corpus(self):
        return list(self.fixed())

    def cases(self, rng, tier):
        n = 1500 if tier == "quick" else 10000
        for _ in range(n):
            def line():
                if rng.randrange(3) == 0:
                    return "k%d = %d" % (rng.randrange(3), rng.randrange(3))
                ws = [rng.choice(WORDS) for _ in range(rng.randint(1, 4))]
                if rng.randrange(3):
                    ws = ["include"] + ws
                return " ".join(ws)
            a = [line() for _ in range(rng.randint(1, 3))]
            if rng.randrange(3) == 0:
                a = ["s {"] + ["  " + x for x in a] + ["}"]
            b = [line() for _ in range(rng.randint(0, 2))] + ["b = 1"]
            yield self.mk("\n".join(a) + "\n", "\n".join(b) + "\n", mode=rng.choice(["abs", "abs", "rel", "str"]))

    def prop(self, case, o):
        if o[0] != o[1]:
            return "result depends on the current directory: %r vs %r" % (o[0], o[1])
        if o[0][0] == "err" and o[0][1] == "other:RecursionError":
            return "RecursionError"
        return None

    def tag(self, case, o):
        r = o[0]
        return case["mode"] + ":" + (r[0] if r[0] == "ok" else r[2] or r[1])


# ----------------------------------------------------------------------------- include scope
MODMARK = "@MOD@"
INC_SCOPE_RE = re.compile(r'^include\s+scope((?:\s+\S+)+)$')

# PHIL texts of the Python-level targets; each is offered as a string (<name>_s), as a parsed
# scope object (<name>_o) and as a callable returning a scope (<name>_c)
TARGETS = {
    "plain": "x = 1\n  .help = u\ns\n  .help = v\n{\n  y = 2\n  z = 3\n}\nx = 3\n",
    # nested include file: absolute name, and a relative one (scopes have no directory: resolved
    # against the current directory)
    "nf": "p = 1\ninclude file @ROOT@/sc/f1.phil\nr {\n  include file sc/f2.phil\n  k = 0\n}\nq = 2\n",
    # nested include scope, whole and with a sub-path
    "ns": "p = 1\ninclude scope @MOD@.plain_o\nq = 2\nr {\n  include scope @MOD@.plain_s s.y\n}\nx = 4\n",
    "deep": "include scope @MOD@.ns_c\nw {\n  include scope @MOD@.nf_o s\n  include scope @MOD@.ns_s r\n}\nlast = 1\n",
    # the sub-path exists only through the nested include
    "only": "include scope @MOD@.plain_c\nt {\n  include file @ROOT@/sc/f1.phil\n}\n",
    "off": "a = 1\n!include scope @MOD@.plain_s\n!d {\n  include scope @MOD@.nowhere\n}\nb = 2\n",
    # cycles: scope <-> scope, scope -> itself, scope <-> file
    "cyca": "a = 1\ninclude scope @MOD@.cycb_s\n",
    "cycb": "b = 1\ninclude scope @MOD@.cyca_o\n",
    "selfc": "s0 = 1\ninclude scope @MOD@.selfc_s\n",
    "fcyc": "f0 = 1\ninclude file @ROOT@/sc/back.phil\n",
    "missing": "m = 1\ninclude file @ROOT@/sc/nowhere.phil\n",
    # expert levels up to 5 (a foreign scope is rendered to text before it is spliced: nothing may be filtered out)
    "exp": "e0 = 1\n  .expert_level = 5\nes\n  .expert_level = 4\n{\n  e1 = 2\n    .expert_level = 3\n  e2 = 3\n}\ne3 = 4\n  .help = h\n",
}
SC_FILES = [
    ["sc/f1.phil", "s {\n  y = 5\n  include file g.phil\n}\nx = 7\n"],
    ["sc/g.phil", "g = 1\nu {\n  v = 2\n}\n"],
    ["sc/f2.phil", "y = 6\n"],
    ["sc/back.phil", "back = 1\ninclude scope @MOD@.fcyc_s\n"],
    ["elsewhere/sc/f2.phil", "y = 66\nelse = 1\n"],
    ["sc/doc.phil", ""],          # overwritten per case (mode "file")
]
SC_DIRS = ["sc", "elsewhere", "elsewhere/sc", "nofiles"]
# sub-paths tried per target: mostly present in the EXPANDED target (several only through a nested
# include), a few absent
SUBPATHS = {
    "plain": [None, "x", "s", "s.y", "s.z", "nothere", "s.nothere"],
    "nf": [None, "p", "s", "s.y", "s.g", "s.u", "s.u.v", "r", "r.y", "r.k", "x", "q", "nothere", "r.g"],
    "ns": [None, "p", "x", "s", "s.y", "s.z", "r", "r.y", "q", "r.z"],
    "deep": [None, "w", "w.s", "w.s.y", "w.s.u.v", "w.r", "w.r.y", "x", "r.y", "s.z", "last", "w.x"],
    "only": [None, "x", "s.y", "t", "t.s", "t.s.y", "t.s.g", "t.s.u", "t.x", "t.g"],
    "off": [None, "a", "b", "d", "x"],
    "exp": [None, "e0", "es", "es.e1", "es.e2", "e3", "nothere"],
}

_MOD = {"name": None, "dir": None}


def scope_module():
    """Write (once per run) the Python module holding the targets; returns (module name, directory)."""
    if _MOD["name"] is None:
        name = "c13scopes_%d" % os.getpid()
        d = tmp_root() + "/pymod"
        os.makedirs(d, exist_ok=True)
        src = ["import freephil", "",
               "class _Foreign:",
               "    \"\"\"stand-in for a scope of another PHIL implementation (libtbx): only is_scope and show()\"\"\"",
               "    is_scope = True",
               "    def __init__(self, scope):",
               "        self._scope = scope",
               "    def show(self, out=None, expert_level=None, attributes_level=0):",
               "        self._scope.show(out=out, expert_level=expert_level, attributes_level=attributes_level)",
               ""]
        for t, text in TARGETS.items():
            src.append("%s_s = %r" % (t, text.replace(MARK, base_dir()).replace(MODMARK, name)))
            src.append("%s_o = freephil.parse(%s_s)" % (t, t))
            src.append("def %s_c():\n    return freephil.parse(%s_s)\n" % (t, t))
            src.append("%s_f = _Foreign(freephil.parse(%s_s))" % (t, t))
        src += ["notscope = 1.0", "none_t = None", "def bad_c():\n    return 3\n"]
        with open("%s/%s.py" % (d, name), "w") as f:
            f.write("\n".join(src) + "\n")
        _MOD.update(name=name, dir=d)
        atexit.register(sys.modules.pop, name, None)
    return _MOD["name"], _MOD["dir"]


class Expect(Exception):
    """outcome the property demands other than a tree"""


def scan2(text):
    """like scan(), for include-file and include-scope lines: (line, None | ("file", name) |
    ("scope", import_path, sub_path-or-None))"""
    depth = 0
    dis = None
    for line in text.split("\n"):
        s = line.strip()
        inc = None
        if s.endswith("{"):
            if dis is None and s.startswith("!"):
                dis = depth
            depth += 1
        elif s == "}":
            depth -= 1
            if dis is not None and depth == dis:
                dis = None
        elif dis is None:
            m = INC_RE.match(s)
            if m:
                inc = ("file", m.group(2))
            else:
                m = INC_SCOPE_RE.match(s)
                if m:
                    inc = ("scope",) + tuple(m.group(1).split())
        yield line, inc


class IncludeScope(Stream):
    """'include scope <module.object> [<sub.path>]' on the implementation, judged by the property's
    own statement: expand the target completely FIRST (nested include file / include scope lines,
    recursively), select the sub-path AFTERWARDS, splice at the position of the include line.
    The model does not cover Python-level targets (it answers Unmodelled after the argument-count
    checks), so this stream is oracle-only: model() echoes the implementation's observation unless
    the model has an opinion (argument-count errors, errors raised before the include-scope line)."""
    name = "include_scope"
    cluster = "Include"
    impl_timeout = 10.0

    def __init__(self, ctx):
        super().__init__(ctx)
        self.fp = import_freephil()

    # ---- cases
    def mk(self, doc, mode="str", cwd=""):
        return {"doc": doc, "mode": mode, "cwd": cwd}

    def corpus(self):
        M = MODMARK
        return [
            self.mk("include scope %s.ns_o r\n" % M),                       # sub-path that a nested include fills
            self.mk("o {\n  include scope %s.only_s t.s.y\n}\n" % M),
            self.mk("include scope %s.only_c x\n" % M),
            self.mk("include scope %s.nf_s r\n" % M, cwd="elsewhere"),
            self.mk("include scope %s.selfc_s\n" % M),                      # former finding C13-F1: must be the cycle error
            self.mk("include scope %s.cyca_o\n" % M, mode="file"),          # former finding C13-F1
            self.mk("include scope %s.plain_s\ninclude scope %s.plain_s\no {\n  include scope %s.plain_s s\n}\n" % (M, M, M)),  # same target side by side: no cycle
            self.mk("include scope %s.fcyc_c\n" % M),
            self.mk("include scope %s.plain_s nothere\n" % M),
            self.mk("include scope %s.notscope\n" % M),
            self.mk("include scope %s.nothere\n" % M),
            self.mk("include scope nomodule_c13_zz.x\n"),
            self.mk("include scope short\n"),
            self.mk("include scope %s.bad_c\n" % M),
            self.mk("include scope %s.plain_s a b\n" % M),
        ]

    def cases(self, rng, tier):
        M = MODMARK
        names = [t + v for t in TARGETS for v in ("_s", "_o", "_c", "_f")]
        combos = [(n, p) for n in names for p in SUBPATHS.get(n[:-2], [None, "a"])]
        if tier != "quick":
            combos = combos * 8
        for n, p in combos:
            inc = "include scope %s.%s%s" % (M, n, "" if p is None else " " + p)
            k = rng.randrange(4)
            if k == 0:
                doc = inc + "\n"
            elif k == 1:
                doc = "d0 = 1\n" + inc + "\nd1 = 2\n"
            elif k == 2:
                doc = "d0 = 1\no {\n  e = 1\n  " + inc + "\n  f = 2\n}\nd1 = 2\n"
            else:
                doc = "o {\n  oo {\n    " + inc + "\n  }\n}\n" + "include scope %s.plain_o s\n" % M
            yield self.mk(doc, mode="file" if rng.randrange(4) == 0 else "str",
                          cwd=rng.choice(["", "", "elsewhere", "nofiles"]))
        for bad in ["%s.notscope" % M, "%s.none_t" % M, "%s.bad_c" % M, "%s.nothere" % M, "nomodule_c13_zz.x", "short",
                    "%s.plain_s.x" % M, "%s.plain_s a b" % M, "%s.plain_s a b c" % M]:
            yield self.mk("d0 = 1\ninclude scope %s\n" % bad)
            yield self.mk("o {\n  include scope %s\n}\n" % bad, mode="file")

    # ---- running the implementation
    def files(self, case):
        return {"files": [[r, (case["doc"] if r == "sc/doc.phil" and case["mode"] == "file" else t)
                           .replace(MODMARK, scope_module()[0])] for r, t in SC_FILES], "dirs": SC_DIRS}

    def doc(self, case, base):
        return subst(case["doc"], base).replace(MODMARK, scope_module()[0])

    def impl(self, case):
        mod, moddir = scope_module()
        base = materialise(self.files(case))
        old = os.getcwd()
        lim = sys.getrecursionlimit()
        sys.path.insert(0, moddir)
        tree = None
        before = self.module_links(mod)
        try:
            os.chdir(base + "/" + case["cwd"] if case["cwd"] else base)
            sys.setrecursionlimit(min(lim, frame_depth() + 250))
            try:
                if case["mode"] == "file":
                    tree = self.fp.parse(file_name=base + "/sc/doc.phil", process_includes=True)
                else:
                    tree = self.fp.parse(input_string=self.doc(case, base), process_includes=True)
                obs = tree_obs(tree)
            except Exception as e:  # noqa
                obs = err_obs(e, base)
                if obs[1].startswith("other:") and obs[1] not in ("other:OSError", "other:RecursionError"):
                    obs = ["err", obs[1], "", "0", []]      # line of a non-refusal is nobody's business here
        finally:
            sys.setrecursionlimit(lim)
            os.chdir(old)
            sys.path.remove(moddir)
        verdict = self.judge(case, base, obs, tree)
        if verdict is None:
            after = self.module_links(mod)
            if before is not None and after != before:
                bad = sorted(k for k in after if after[k] != before.get(k))
                verdict = ("the Python-level scope(s) %s were modified by being included (printed form / full paths / parent links "
                           "of their objects): splicing must work on copies, the same scope may be included any number of times" % bad)
        return [obs, verdict]

    @staticmethod
    def module_links(mod):
        """printed form, full_path() and parent link of every object of every module-level scope of the target module"""
        m = sys.modules.get(mod)
        if m is None:
            return None
        def links(sc, prefix=""):
            out = []
            for o in sc.objects:
                here = prefix + o.name
                out.append([here, o.full_path(), o.primary_parent_scope is sc])
                if o.is_scope:
                    out.extend(links(o, here + "."))
            return out
        snap = {}
        for k, v in vars(m).items():
            if k.endswith("_o") and hasattr(v, "objects"):
                snap[k] = [v.as_str(attributes_level=3), links(v)]
        return snap

    # ---- the property's statement
    def expand(self, text, refdir, cwd_abs, base, fstack, depth):
        """text with every active include line replaced by what the property says goes there"""
        if depth > 60:
            raise Expect("cycle")            # cannot happen: every level pushes a file name or a scope key
        mod = scope_module()[0]
        files = {base + "/" + r: t for r, t in self._files}
        out = []
        for line, inc in scan2(text):
            if inc is None:
                out.append(line)
            elif inc[0] == "file":
                name = inc[1]
                if not name.startswith("/"):
                    name = (cwd_abs if refdir is None else refdir) + "/" + name
                n = posixpath.normpath(name)
                if n not in files:
                    raise Expect("oserror")
                if n in fstack:
                    raise Expect("cycle")
                out.append(self.expand(files[n], posixpath.dirname(n), cwd_abs, base, fstack + [n], depth + 1))
            else:
                if len(inc) > 3:
                    raise Expect("args")                  # more than import path + sub-path
                imp, sub = inc[1], (inc[2] if len(inc) == 3 else None)
                parts = imp.split(".")
                if len(parts) != 2 or parts[0] != mod or parts[1][:-2] not in TARGETS or parts[1][-2:] not in ("_s", "_o", "_c", "_f"):
                    raise Expect("badtarget")
                ttext = subst(TARGETS[parts[1][:-2]], base).replace(MODMARK, mod)
                key = "scope " + imp             # the stack mixes normalised file names and these keys
                if key in fstack:
                    raise Expect("cycle")
                full = self.expand(ttext, None, cwd_abs, base, fstack + [key], depth + 1)   # expand first ...
                if sub is None:
                    out.append(full)
                else:
                    sel = self.fp.parse(input_string=full).get(path=sub)               # ... select afterwards
                    if len(sel.objects) == 0:
                        raise Expect("notfound")
                    out.append(sel.as_str(attributes_level=3))
        return "\n".join(out)

    def expectation(self, case, base):
        """("text", inlined text) or ("cycle"|"oserror"|"notfound"|"args"|"badtarget", None)"""
        self._files = [[r, subst(t, base)] for r, t in self.files(case)["files"]]
        cwd_abs = base + "/" + case["cwd"] if case["cwd"] else base
        try:
            if case["mode"] == "file":
                n = base + "/sc/doc.phil"
                return "text", self.expand(self.doc(case, base), posixpath.dirname(n), cwd_abs, base, [n], 0)
            return "text", self.expand(self.doc(case, base), None, cwd_abs, base, [], 0)
        except Expect as e:
            return str(e), None

    def judge(self, case, base, obs, tree):
        kind, text = self.expectation(case, base)
        if kind == "text":
            if tree is None:
                return "expected the spliced tree, outcome is %r" % (obs[:3],)
            want = self.fp.parse(input_string=text).as_str(attributes_level=3)
            return None if tree.as_str(attributes_level=3) == want else \
                "spliced objects are not the sub-path of the fully expanded target:\n%s\ninstead of\n%s" % (
                    tree.as_str(), self.fp.parse(input_string=text).as_str())
        if kind == "cycle":
            # files and 'include scope' targets alike (cycles made only of include-scope lines used to
            # recurse until RecursionError: former finding C13-F1, repaired in the code)
            if obs[:3] != ["err", "RuntimeError", "cycle"]:
                return "an include chain returns to a file / scope target being expanded: outcome %r" % (obs[:3],)
            if len(obs[4]) < 2 or obs[4][-1] not in obs[4][:-1]:
                return "reported chain %r does not end in a repeated entry" % (obs[4],)
            return None
        if kind == "oserror":
            return None if obs[:2] == ["err", "other:OSError"] else "a named file does not exist: outcome %r" % (obs[:3],)
        if kind == "notfound":
            return None if obs[:3] == ["err", "RuntimeError", "rt"] else "sub-path absent from the expanded target: outcome %r" % (obs[:3],)
        if kind == "args":
            return None if obs[:3] == ["err", "RuntimeError", "rt"] else "too many arguments: outcome %r" % (obs[:3],)
        # bad import path / not a scope: some refusal; which class is C16's business
        return None if obs[0] == "err" else "unusable include-scope target was accepted"

    def prop(self, case, o):
        return o[1]

    # ---- model: argument-count checks only
    def requests(self, case, o):
        base = base_dir()
        tab = []
        for r, t in self.files(case)["files"]:
            try:
                tab.append([base + "/" + r, ["ok", [obj_sx(x) for x in self.fp.parse(input_string=subst(t, base)).objects]]])
            except RuntimeError as e:
                tab.append([base + "/" + r, ["bad", err_line(str(e))]])
        cwd = base + "/" + case["cwd"] if case["cwd"] else base
        if case["mode"] == "file":
            return [("includes", ["f", [[cwd, base + "/sc/doc.phil"]], tab])]
        try:
            objs = [obj_sx(x) for x in self.fp.parse(input_string=self.doc(case, base)).objects]
        except RuntimeError:
            return []
        return [("includes", ["s", [[cwd, objs]], tab])]

    def model(self, case, replies, o):
        if not replies or replies[0] == ["badinput"]:
            return o
        m = model_obs(replies[0][0], base_dir())
        if m == "UNMODELLED":
            return o            # oracle-only (vlib skips prop for "UNMODELLED", so echo instead)
        return [m, o[1]]

    def key(self, case, o):
        return json.dumps(case, sort_keys=True)

    def tag(self, case, o):
        r = o[0]
        return self.expectation(case, base_dir())[0] + ":" + (r[0] if r[0] == "ok" else r[2] or r[1])

    def shrink(self, case):
        lines = case["doc"].split("\n")
        for j, l in enumerate(lines):
            s = l.strip()
            if s and not s.endswith("{") and s != "}":
                yield self.mk("\n".join(lines[:j] + lines[j + 1:]), case["mode"], case["cwd"])


class IncludeRegistry(Stream):
    """Includes under a customized parse (converter_registry=R): the string target of an 'include scope', an included file and
    the root are all parsed with R, so the expanded tree equals the tree of the hand-inlined text parsed with R - for a type
    that only R knows and for a standard type name that R re-defines.  Oracle only; self-contained (own module and files)."""
    name = "include_registry"
    cluster = "Include"
    impl_timeout = 10.0
    TYPES = ["scaled", "int", "scaled(factor=3)", "str", "float"]

    def __init__(self, ctx):
        super().__init__(ctx)
        self.fp = import_freephil()

    def corpus(self):
        return [{"ty": "scaled", "via": "scope", "where": "top"}, {"ty": "int", "via": "scope", "where": "top"},
                {"ty": "scaled", "via": "file", "where": "nested"}, {"ty": "int", "via": "scope_sub", "where": "nested"}]

    def cases(self, rng, tier):
        for _ in range(30 if tier == "quick" else 300):
            yield {"ty": rng.choice(self.TYPES), "via": rng.choice(["scope", "scope_sub", "file", "both"]),
                   "where": rng.choice(["top", "nested"])}

    def registry(self):
        fp = self.fp
        from freephil import tokenizer

        class scaled_converters:
            phil_type = "scaled"

            def __init__(self, factor=10):
                self.factor = factor

            def __str__(self):
                return "scaled" if self.factor == 10 else "scaled(factor=%d)" % self.factor

            def from_words(self, words, master):
                v = fp.int_from_words(words=words, path=master.full_path())
                return None if v is None else v * self.factor

            def as_words(self, python_object, master):
                if python_object is None:
                    return [tokenizer.word(value="None")]
                return [tokenizer.word(value=str(python_object // self.factor))]

        class my_int_converters(scaled_converters):
            phil_type = "int"

            def __init__(self):
                scaled_converters.__init__(self, factor=1000)

            def __str__(self):
                return "int"

        return fp.extended_converter_registry(additional_converters=[scaled_converters, my_int_converters])

    def impl(self, case):
        import importlib
        import shutil
        import tempfile
        fp = self.fp
        R = self.registry()
        d = tempfile.mkdtemp(prefix="c13reg_")
        mod = "c13reg_%d_%d" % (os.getpid(), abs(hash(d)) % 100000)
        target = "w = 2\n  .type = %s\nsub {\n  v = 4\n    .type = %s\n}\n" % (case["ty"], case["ty"])
        leaf = "f = 6\n  .type = %s\n" % case["ty"]
        with open(os.path.join(d, mod + ".py"), "w") as fh:
            fh.write("phil_str = %r\n" % target)
        os.mkdir(os.path.join(d, "inc"))
        with open(os.path.join(d, "inc", "leaf.params"), "w") as fh:
            fh.write(leaf)
        lines, inl = [], []
        if case["via"] in ("scope", "both"):
            lines.append("include scope %s.phil_str" % mod)
            inl.append(target)
        if case["via"] == "scope_sub":
            lines.append("include scope %s.phil_str sub" % mod)
            inl.append("sub {\n  v = 4\n    .type = %s\n}\n" % case["ty"])
        if case["via"] in ("file", "both"):
            lines.append("include file inc/leaf.params")
            inl.append(leaf)
        if case["where"] == "nested":
            root = "a = 1\n  .type = %s\nouter {\n%s\n}\n" % (case["ty"], "\n".join(lines))
            inlined = "a = 1\n  .type = %s\nouter {\n%s}\n" % (case["ty"], "".join(inl))
        else:
            root = "a = 1\n  .type = %s\n%s\n" % (case["ty"], "\n".join(lines))
            inlined = "a = 1\n  .type = %s\n%s" % (case["ty"], "".join(inl))
        with open(os.path.join(d, "root.params"), "w") as fh:
            fh.write(root)
        sys.path.insert(0, d)
        old = os.getcwd()
        try:
            os.chdir("/")
            try:
                want_t = fp.parse(input_string=inlined, converter_registry=R)
                want = [want_t.as_str(attributes_level=2), self.values(want_t)]
            except (RuntimeError, fp.Sorry) as e:
                return ["inlined-refused", str(e)[:100]]
            try:
                got_t = fp.parse(file_name=os.path.join(d, "root.params"), converter_registry=R, process_includes=True)
                got = [got_t.as_str(attributes_level=2), self.values(got_t)]
            except (RuntimeError, fp.Sorry) as e:
                return ["differs", "refused: " + str(e)[:160], want]
            return ["ok"] if got == want else ["differs", got, want]
        finally:
            os.chdir(old)
            sys.path.remove(d)
            sys.modules.pop(mod, None)
            importlib.invalidate_caches()
            shutil.rmtree(d, ignore_errors=True)

    def values(self, t):
        out = []

        def walk(e, path):
            for k, v in sorted(e.__dict__.items()):
                if k.startswith("__"):
                    continue
                if isinstance(v, self.fp.scope_extract):
                    walk(v, path + k + ".")
                else:
                    out.append([path + k, repr(v)])
        walk(t.extract(), "")
        return out

    def requests(self, case, o):
        return []

    def model(self, case, replies, o):
        return o

    def prop(self, case, o):
        if o[0] == "differs":
            return "parsed with a custom converter registry, the expanded document gives %r, the inlined text gives %r" % (o[1], o[2])
        return None

    def tag(self, case, o):
        return o[0]


SPEC = {
    "clusters": ["Include"],
    "streams": [Paths, Graphs, Malformed, IncludeScope, IncludeRegistry],
    "rule": "paths: all strings over {a,b,.,..,/,//} up to 5 (quick) / 6 (thorough) tokens + random longer ones, x 3 real current "
            "directories; graphs: all 13^3 include graphs over 3 files with 0-2 ordered includes each (thorough: + 30 000 sampled over "
            "4 files with 0-3 includes), placement (top level / scope / nested scope), spelling of the name (relative, ./, detour "
            "through .., doubled slashes, quoted, absolute), FILE/File, root given absolute or relative, sampled per graph; every case "
            "run from two current directories that contain decoy files of the same names; malformed: fixed list x 5 positions + random "
            "word soups; include_scope: 11 targets x 3 kinds (string, scope object, callable) x sub-paths (present - several only "
            "through a nested include - and absent) x 4 placements x 3 current directories x root as string or file, plus unusable "
            "targets; distinct = distinct (file texts, root, mode)",
    "trusted": ["Oracles: the file system and the parser (each file parsed by the real freephil.parse without include processing, the "
                "object lists sent to the model as a table keyed by normalised absolute path), os.getcwd() (explicit argument), "
                "'include scope' (not modelled: such cases are counted as unmodelled)",
                "Text-level clause (tree = parse of the textually inlined text) is evaluated on the implementation by the stream's "
                "oracle (harness-side textual inliner), not proved",
                "Stream include_scope is oracle-only: the model covers the argument-count checks and answers Unmodelled for the "
                "Python-level import, so model() echoes the implementation there (vlib skips the oracle for UNMODELLED cases); the "
                "oracle expands the target completely first (harness-side, textually, recursively), selects the sub-path with "
                "scope.get afterwards and compares the printed trees; the exception class for unusable import paths is only required "
                "to be a refusal (ValueError / ImportError / AttributeError observed: C16's topic)"],
    "modelled": "parse()'s include_stack logic, scope.process_includes (file branch, argument checks, disabled objects, nested scopes, "
                "customized_copy), posixpath isabs/join/normpath/dirname/abspath modelled by hand in coq/theories/Model/Include.v",
    "assumptions": ["every directory named in an include path exists and there are no symbolic links (the model looks files up by "
                    "normalised name; the code opens the name as written)",
                    "include lines whose words contain $ outside single quotes are outside the model (variable substitution)",
                    "text restricted to code points < 256"],
}
