"""Shared by the parser-based checks (C01, C02, C15, C16, C19): running freephil.parse with the
oracle calls recorded, canonical observations, error-kind table, document generators."""
import re

import vlib
from vlib import canon, exc_class, objs_sx, qcode, aval_sx

ERR_TABLE = [
    (r"^Syntax error: missing closing quote", "MissingClosingQuote"),
    (r"^Unexpected end of input", "UnexpectedEnd"),
    (r"^Unquoted word expected", "UnquotedExpected"),
    (r'^Syntax error: expected "', "SyntaxExpected"),
    (r'^Syntax error: unexpected "\{"', "UnexpectedBrace"),
    (r"^Syntax error: unexpected ", "Unexpected"),
    (r"^Syntax error: improper scope name", "ImproperScopeName"),
    (r"^Syntax error: improper definition name", "ImproperDefinitionName"),
    (r"^Missing value for", "MissingValue"),
    (r"^Unknown: ", "UnknownPhilDirective"),
    (r"^Unexpected scope attribute", "UnexpectedScopeAttribute"),
    (r"^Unexpected definition attribute", "UnexpectedDefinitionAttribute"),
    (r"^Reserved identifier", "Reserved"),
    (r'^Syntax error: missing "', "MissingBrace"),
    (r"^Syntax error: no matching", "NoMatchingBrace"),
    (r"^One True or False value expected", "NotBool"),
    (r"^Error interpreting .* as a numeric expression", "NotNumeric"),
    (r"^Error interpreting .* as an integer expression", "NotInteger"),
    (r"^Error (constructing|evaluating) definition type", "BadType"),
    (r"^Unexpected definition type", "BadType"),
    (r'^scope ".*" \.call', "BadCall"),
    (r"^Invalid \.sequential_format", "BadSequentialFormat"),
    (r"^Syntax error: \$ must be followed", "BadVariable"),
    (r'^Syntax error: missing "\)"', "BadVariable"),
    (r"^Syntax error: improper variable name", "BadVariable"),
    (r"^Undefined variable", "UndefinedVariable"),
    (r"^Not a definition", "NotADefinition"),
]
_ERR = [(re.compile(p, re.S), k) for p, k in ERR_TABLE]
_LINE_END = re.compile(r"line (\d+)\)?$")
_LINE_ANY = re.compile(r"line (\d+)")


def err_kind(msg):
    for r, k in _ERR:
        if r.search(msg):
            return k
    return "Other"


def err_line(msg):
    first = msg.split("\n")[0].rstrip()
    m = _LINE_END.search(first)
    if m:
        return int(m.group(1))
    ms = _LINE_ANY.findall(msg)
    return int(ms[-1]) if ms else 0


def err_obs(e):
    c = exc_class(e)
    if c in ("RuntimeError", "Sorry"):
        return ["err", c, err_kind(str(e)), str(err_line(str(e)))]
    return ["err", c, "", "0"]


def model_err_obs(reply):
    """reply from sx_res: ['uerr', kind, tok, line] | ['crash', cls]"""
    if reply[0] == "uerr":
        return ["err", "RuntimeError", reply[1], reply[3]]
    return ["err", "other:" + reply[1], "", "0"]


def wkey(kind, words):
    return kind + "".join(qcode(w.quote_token) + w.value + "\x00" for w in words)


class Recorder:
    """Wraps the three library functions the parser model treats as oracles and records
    (key -> outcome) for every call made during one implementation run."""

    def __init__(self, fp):
        import freephil.common as C

        self.C = C
        self.fp = fp
        self.table = {}
        self.orig = {}

    def _wrap(self, name, kind, argname):
        orig = getattr(self.C, name)
        self.orig[name] = orig

        def wrapper(*a, **k):
            words = k.get("words", None)
            if words is None:
                # positional: definition_converters_from_words(words,..), int_from_words(words,..),
                # scope_extract_call_proxy(full_path, words, cache)
                words = a[1] if name == "scope_extract_call_proxy" else a[0]
            key = wkey(kind, words)
            try:
                r = orig(*a, **k)
            except Exception as e:  # noqa
                c = exc_class(e)
                if c in ("RuntimeError", "Sorry"):
                    self.table[key] = ["uerr", err_kind(str(e)), "", err_line(str(e))]
                else:
                    self.table[key] = ["crash", type(e).__name__]
                raise
            v = aval_sx("type" if kind == "T" else "x", r)
            self.table[key] = ["ok", v if v is not None else ["none"]]
            return r

        setattr(self.C, name, wrapper)

    def __enter__(self):
        self.table = {}
        self._wrap("definition_converters_from_words", "T", "words")
        self._wrap("int_from_words", "I", "words")
        self._wrap("scope_extract_call_proxy", "C", "words")
        return self

    def __exit__(self, *a):
        for n, f in self.orig.items():
            setattr(self.C, n, f)
        self.orig = {}

    def oracle(self):
        return [[k, v] for k, v in sorted(self.table.items())]


def impl_parse(fp, text, keep_tree=False):
    """Returns (observation, oracle table[, tree])."""
    rec = Recorder(fp)
    tree = None
    with rec:
        try:
            tree = fp.parse(input_string=text)
            obs = ["ok", canon(objs_sx(tree))]
        except RecursionError:
            obs = ["err", "other:RecursionError", "", "0"]
        except Exception as e:  # noqa
            obs = err_obs(e)
    if keep_tree:
        return obs, rec.oracle(), tree
    return obs, rec.oracle()


def model_parse_obs(reply):
    if reply[0] == "ok":
        return ["ok", reply[1]]
    if reply[0] == "uerr" and reply[1] == "Unmodelled":
        return "UNMODELLED"
    return model_err_obs(reply)


# ----------------------------------------------------------------------------- generators
NAMES = ["a", "b", "c", "ab", "s", "t", "x1", "_y", "include", "__z__", "a.b", "s.t.u", "b.include", "1a", "a-b", "s.__q__.c"]
GOOD_NAMES = ["a", "b", "c", "ab", "s", "t", "x1", "_y"]
VALUE_WORDS = ["1", "2.5", "x", "None", "Auto", "yes", "*a", "a+b", "\\", "#", "#x", "x#y", "$a", "$(b)", "a=b", "'q'", '"dq"',
               "'''t'''", '"""t"""', '"a b"', "'a\\'b'", '"a\\\\"', '"li\nne"', "'''a\nb'''", '"x\\\ny"', "!", "!a", ".a", "{", "}",
               ";", "=", '"', "'''", "e'm", 'x"y']
DEF_ATTR_VALS = {
    "help": ["h", '"some help"', "None", "Auto", '"multi\nline"', "a b c"],
    "caption": ["cap", '"a b"'], "short_caption": ["sc"], "style": ["bold", '"a b"', "None"],
    "alias": ["al", "None"], "deprecated": ["True", "False", "None", "x"],
    "optional": ["True", "False", "None", "Auto", "yes", "NO", "on", "0", "maybe", '"true"', "a b"],
    "multiple": ["True", "False", "None", "1", "off", "2"],
    "input_size": ["3", "-1", "+4", "None", "Auto", "1.0", "2*3", "x", "true", "1e3", '" 7 "', "1_0", "1.5"],
    "expert_level": ["0", "1", "2", "5", "None", "4/2", "abc"],
    "type": ["int", "float", "str", "bool", "choice", "choice(multi=True)", "ints", "floats", "strings", "words", "qstr", "path",
             "key", "None", "Auto", "int(value_min=0)", "int(value_min=1, value_max=9, allow_none=False)", "float(value_max=2.5)",
             "ints(size=3)", "ints(size_min=2,size_max=4)", "floats(size_max=3, value_min=0)", "ints(allow_none_elements=True)",
             "int ( value_min = 0 )", "int(", "foo", "int(bad=1)", "int(value_min=5,value_max=1)", '"int"', "int float", "choice(multi=1)"],
}
SCOPE_ATTR_VALS = {
    "style": ["box", "None"], "help": ["h", '"scope help"'], "caption": ["c"], "short_caption": ["s c"],
    "optional": ["True", "False", "x"], "multiple": ["True", "False"], "disable_add": ["True", "q"], "disable_delete": ["False"],
    "expert_level": ["0", "3", "None", "1+1", "z"], "alias": ["sa"], "sequential_format": ["None", "abc", "a%d", "%s", "%", "Auto"],
    "call": ["None", "Auto", "foo", "os.getcwd", "os.path.join(a=1)"],
}
WS = [" ", "  ", "\t", "\n", " \n  ", "\n\n"]
COMMENTS = ["# c\n", "#c {;}\n", "# it's\n", '# "q\n', "#\n"]
PHIL = ["#phil __OFF__\n", "#phil __ON__\n", "#phil __END__\n", "#phil\n", "#phil __ON__", "#phil __FOO__\n", "#phil __OFF__ x\n",
        "#phil  __ON__  \n", "#philx\n"]


def gen_value(rng, n=None):
    n = rng.randint(1, 3) if n is None else n
    return " ".join(rng.choice(VALUE_WORDS) for _ in range(n))


def gen_doc(rng, depth=0, good=False):
    """A structured, mostly valid PHIL document (string)."""
    out = []
    names = GOOD_NAMES if good else NAMES
    for _ in range(rng.randint(0, 4 if depth else 5)):
        r = rng.random()
        bang = "!" if rng.random() < 0.12 else ""
        if r < 0.55:
            name = rng.choice(names)
            if name == "include" and not good:
                out.append("%sinclude %s%s" % (bang, gen_value(rng), rng.choice(["\n", ";", " "])))
                continue
            sep = rng.choice(["=", " = ", " =", "= "])
            out.append("%s%s%s%s" % (bang, name, sep, gen_value(rng)))
            out.append(rng.choice(["\n", ";", " ;", "\n", " # c\n", "\n"]))
            for _ in range(rng.choice([0, 0, 0, 1, 2, 3])):
                an = rng.choice(list(DEF_ATTR_VALS))
                ab = "!" if rng.random() < 0.1 else ""
                out.append("%s%s.%s%s%s%s" % (rng.choice(["", "  "]), ab, an, rng.choice(["=", " = "]), rng.choice(DEF_ATTR_VALS[an]),
                                             rng.choice(["\n", ";", "\n"])))
        elif r < 0.85 and depth < 4:
            name = rng.choice(names)
            out.append("%s%s" % (bang, name))
            for _ in range(rng.choice([0, 0, 1, 2])):
                an = rng.choice(list(SCOPE_ATTR_VALS))
                ab = "!" if rng.random() < 0.1 else ""
                out.append("%s%s.%s = %s" % (rng.choice([" ", "\n  "]), ab, an, rng.choice(SCOPE_ATTR_VALS[an])))
                out.append(rng.choice(["\n", "\n", ";"]))
            out.append(rng.choice([" {", "{", "\n{", " {\n", "{ "]))
            out.append(gen_doc(rng, depth + 1, good))
            out.append(rng.choice(["}", "}\n", " }\n", "\n}\n"]))
        elif r < 0.92:
            out.append(rng.choice(COMMENTS))
        elif r < 0.96:
            out.append(rng.choice(WS))
        else:
            out.append(rng.choice(PHIL))
    return "".join(out)


SOUP = ["a", "b", "s", "=", "{", "}", ";", "\n", " ", "!", ".", ".help", ".type", ".optional", ".expert_level", "#", "#phil", "__ON__",
        "__OFF__", "__END__", '"', "'", '"""', "'''", "\\", "1", "int", "True", "x y", "include", "file", "$a", "\\\n", "a.b", "__r__", "(", ")",
        ",", "\t", ".multiple", ".call", ".sequential_format", "abc",
        # text that is special to Python's own string formatting (error messages quote the user's token)
        "%", "%s", "%d", "%(a)s", "{0}", "{}", "{a}",
        # type expressions with something after the call
        "int()", "ints(size=2)", ", 5", ".phil_type", ".type = int(), 5"]


def gen_soup(rng):
    n = rng.randint(1, 14)
    return "".join(rng.choice(SOUP) + rng.choice(["", "", " ", "\n"]) for _ in range(n))


def mutate(rng, s):
    if not s:
        return s
    k = rng.randrange(5)
    i = rng.randrange(len(s))
    j = min(len(s), i + rng.randint(1, 4))
    if k == 0:
        return s[:i] + s[j:]
    if k == 1:
        return s[:i] + s[i:j] + s[i:]
    if k == 2 and j < len(s):
        return s[:i] + s[j:j + (j - i)] + s[i:j] + s[j + (j - i):]
    if k == 3:
        return s[:i]
    return s[:i] + rng.choice(SOUP) + s[i:]


def shrink_text(s):
    n = len(s)
    step = max(1, n // 2)
    while step >= 1:
        for i in range(0, n, step):
            yield s[:i] + s[i + step:]
        step //= 2
    lines = s.split("\n")
    if len(lines) > 1:
        for i in range(len(lines)):
            yield "\n".join(lines[:i] + lines[i + 1:])
