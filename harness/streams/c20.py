"""C20 - the GUI parameter index (freephil.interface.index) stays coherent over any edit history.

One stream ("histories"): small fully typed masters x random histories over
{update, merge_phil(phil_string | phil_object), update_from_python, push_state, pop_state, set_state,
 get_python_object, get_scope_by_name} (+ a few reset_scope / erase_scope / refused edits, outside the
property's domain, for the correspondence only).

Correspondence.  The implementation runs the history on a real index object.  While it runs, the
top-level calls of the LIBRARY functions scope.fetch / scope.extract / scope.format are recorded
(arguments by content at call time, result or exception class); the harness adds t.extract() of every
working tree it sees.  The extracted Coq model (Model/Index.v: the index's own control logic) replays
the same operations and answers every library call it decides to make from those tables, by the
content of the arguments ("OracleMiss" if the implementation never made that call).  Compared after
every step: the operation's result (value / exception class / for get_python_object the dumped object
and whether it was the cached object or a fresh one), which tree is the working tree, which trees are
on the state stack, and for a sample of paths what get_scope_by_name returns, as positions of the
returned object(s) inside the current working tree (found by identity) or "stale".

Trusted here: the recording wrappers, the dump of extracted objects (token), the tree codec.
fetch/extract/format themselves are NOT trusted to satisfy anything: the model only replays their
answers; the theorems state which hypotheses on them the invariant needs.

CODE_FIXED: True = the code as it is (F12 repaired in /repo e397477: pop_state/set_state invalidate the
cached python object); the model runs with fixed=true and every valid history is in the domain.  False
replays the unrepaired pop_state/set_state (model with fixed=false; histories with F12's signature are
then outside in_domain unless F12 is listed open).

push_state / set_state copy with copy.deepcopy (F23 repaired in /repo d2d0b2d; before, they used a
self-fetch, which is not the identity): they call no library function, so neither the recorded fetch
table nor the model has an entry/call for them.  The prop oracle keeps a shadow stack (text and
extraction of the working tree at every push) and compares it after the matching pop_state, for every
history in the domain.
"""
import contextlib
import io
import json
import os
import random

import vlib
from vlib import Stream, import_freephil, canon, obj_sx

CODE_FIXED = True


def _listed_open(fid):
    """is the finding an open entry of known_findings.json (then match_finding classifies its failures
    and the histories stay in the domain; otherwise they are kept out of in_domain)"""
    try:
        data = json.load(open(vlib.V + "/known_findings.json"))
        return any(f.get("property") == "C20" and f.get("id") == fid and f.get("status") == "open"
                   for f in data.get("findings", []))
    except Exception:  # noqa
        return False


F12_LISTED_OPEN = _listed_open("F12")

# ----------------------------------------------------------------------------- recording of library calls
class _Log:
    rec = None      # list of records while an implementation run is in progress
    depth = 0
    intern = None   # function tree -> id
    installed = False


def ecls(e):
    import freephil
    if isinstance(e, freephil.Sorry):
        return "Sorry"
    return type(e).__name__


def dump_py(x):
    """Canonical token of an extracted python object (content only)."""
    import freephil
    from freephil import common

    def d(v):
        if isinstance(v, common.scope_extract):
            return {"S": {k: d(w) for k, w in sorted(v.__dict__.items()) if not k.startswith("__phil_")}}
        if v is common.scope_extract_is_disabled:
            return "<disabled>"
        if isinstance(v, list):
            return {"L": [d(w) for w in v]}
        if v is None or isinstance(v, (bool, int, str)):
            return [type(v).__name__, v]
        if v is freephil.Auto:
            return "<Auto>"
        return [type(v).__name__, repr(v)]
    return json.dumps(d(x), sort_keys=True)


def tree_wire(o):
    """wire form of a tree with the attribute the indexer writes into objects (.short_caption) removed"""
    t = obj_sx(o)

    def strip(t):
        kind, h, body, at = t
        at = [a for a in at if a[0] != "short_caption"]
        if kind == "scope":
            body = [strip(k) for k in body]
        return [kind, h, body, at]
    return strip(t)


_DEF_ATTRS = [a for a in vlib.DEF_ATTRS if a != "short_caption"]
_SCOPE_ATTRS = [a for a in vlib.SCOPE_ATTRS if a != "short_caption"]
_QC = {None: "n", "'": "1", '"': "2", "'''": "s", '"""': "d"}


def fast_wire(o):
    """== canon(tree_wire(o)), written out for speed (checked against it on the first trees of every run)"""
    h = [o.name, "1" if o.is_disabled else "0", str(int(o.is_template)), "1" if o.merge_names else "0",
         str(int(o.primary_id or 0)), str(vlib.where_line(o.where_str))]
    at = []
    isdef = o.is_definition
    for n in (_DEF_ATTRS if isdef else _SCOPE_ATTRS):
        v = getattr(o, n)
        if v is not None:
            at.append([n, canon(vlib.aval_sx(n, v))])
    if isdef:
        return ["def", h, [[w.value, _QC[w.quote_token], str(int(w.line_number or 0))] for w in o.words], at]
    return ["scope", h, [fast_wire(k) for k in o.objects], at]


def install_wrappers(fp):
    if _Log.installed:
        return
    _Log.installed = True
    from freephil import common
    sc = common.scope
    o_fetch, o_extract, o_format = sc.fetch, sc.extract, sc.format

    def fetch(self, source=None, sources=None, track_unused_definitions=False, diff=False, skip_incompatible_objects=False):
        if _Log.rec is None or _Log.depth > 0 or track_unused_definitions or diff or skip_incompatible_objects:
            return o_fetch(self, source=source, sources=sources, track_unused_definitions=track_unused_definitions,
                           diff=diff, skip_incompatible_objects=skip_incompatible_objects)
        srcs = sources if sources is not None else ([source] if source is not None else [])
        key = [_Log.intern(self), [_Log.intern(s) for s in srcs]]
        _Log.depth += 1
        try:
            r = o_fetch(self, source=source, sources=sources)
        except BaseException as e:  # noqa
            _Log.rec.append(("fetch", key, ["err", ecls(e)]))
            raise
        finally:
            _Log.depth -= 1
        _Log.rec.append(("fetch", key, ["ok", _Log.intern(r)]))
        return r

    def extract(self, parent=None):
        if _Log.rec is None or _Log.depth > 0 or parent is not None:
            return o_extract(self, parent=parent)
        key = _Log.intern(self)
        _Log.depth += 1
        try:
            r = o_extract(self)
        except BaseException as e:  # noqa
            _Log.rec.append(("extract", key, ["err", ecls(e)]))
            raise
        finally:
            _Log.depth -= 1
        _Log.rec.append(("extract", key, ["ok", dump_py(r)]))
        return r

    def format(self, python_object):
        if _Log.rec is None or _Log.depth > 0:
            return o_format(self, python_object)
        key = [_Log.intern(self), dump_py(python_object)]
        _Log.depth += 1
        try:
            r = o_format(self, python_object)
        except BaseException as e:  # noqa
            _Log.rec.append(("format", key, ["err", ecls(e)]))
            raise
        finally:
            _Log.depth -= 1
        _Log.rec.append(("format", key, ["ok", _Log.intern(r)]))
        return r

    sc.fetch, sc.extract, sc.format = fetch, extract, format


# ----------------------------------------------------------------------------- generators
DEFN = ["a", "b", "c", "d"]
VAL = {"int": [0, 1, 2, 3, 5, 7], "str": ["x", "y", "zz"], "bool": [True, False]}
ALTS = ["p", "q", "r"]


def gen_master(rng):
    """-> (text, params) ; params: [path, type, alts, multiple_def, inside_multiple_scope], scopes: [path, multiple]"""
    lines, params, scopes = [], [], []

    def gdef(name, prefix, ind, in_multi, allow_multi):
        t = rng.choice(["int", "int", "str", "bool", "choice"])
        multi = allow_multi and t in ("int", "str") and rng.random() < 0.5
        path = prefix + name
        if t == "choice":
            alts = ALTS[: rng.randint(2, 3)]
            sel = rng.randrange(len(alts))
            lines.append("%s%s = %s" % (ind, name, " ".join(("*" if i == sel else "") + a for i, a in enumerate(alts))))
        else:
            alts = []
            dv = "None" if multi else rng.choice(VAL[t])
            lines.append("%s%s = %s" % (ind, name, dv))
        lines.append("%s  .type = %s" % (ind, t))
        if multi:
            lines.append("%s  .multiple = True" % ind)
        params.append([path, t, alts, multi, in_multi])

    want_multi = rng.choice(["none", "def", "scope", "both"])
    names = DEFN[:]
    rng.shuffle(names)
    ntop = rng.randint(1, 2)
    for n in names[:ntop]:
        gdef(n, "", "", False, False)
    if want_multi in ("def", "both"):
        t = rng.choice(["int", "str"])
        lines += ["m = None", "  .type = %s" % t, "  .multiple = True"]
        params.append(["m", t, [], True, False])
    nsc = rng.randint(0, 2)
    for sname in ["s", "t"][:nsc]:
        lines.append(sname + " {")
        scopes.append([sname, False])
        inner = DEFN[:]
        rng.shuffle(inner)
        for n in inner[: rng.randint(1, 2)]:
            gdef(n, sname + ".", "  ", False, False)
        if sname == "s" and rng.random() < 0.3:
            lines.append("  u {")
            scopes.append(["s.u", False])
            gdef("e", "s.u.", "    ", False, rng.random() < 0.3)
            lines.append("  }")
        lines.append("}")
    if want_multi in ("scope", "both"):
        lines += ["g", "  .multiple = True", "{"]
        scopes.append(["g", True])
        for n in ["k", "l"][: rng.randint(1, 2)]:
            gdef(n, "g.", "  ", True, False)
        lines.append("}")
    return "\n".join(lines) + "\n", params, scopes


def fmt_val(t, v):
    return str(v)


def gen_value(rng, p):
    path, t, alts, multi, in_ms = p
    if t == "choice":
        return rng.choice(alts)
    if multi and rng.random() < 0.15:
        return "None"
    return rng.choice(VAL[t])


def gen_edit(rng, params):
    """A valid edit text built from the master's parameter paths and in-domain values."""
    n = 1 if rng.random() < 0.6 else 2
    out = []
    for _ in range(n):
        p = rng.choice(params)
        path = p[0]
        reps = rng.randint(1, 2) if p[3] else 1
        for _ in range(reps):
            v = gen_value(rng, p)
            if "." in path and (p[4] or rng.random() < 0.3):
                segs = path.split(".")
                out.append(" { ".join(segs[:-1]) + " { %s = %s " % (segs[-1], v) + "} " * (len(segs) - 1))
            else:
                out.append("%s = %s" % (path, v))
    return "\n".join(out)


def gen_bad_edit(rng, params):
    kind = rng.choice(["syntax", "choice", "int", "unknown", "choice+multi"])
    if kind == "syntax":
        return rng.choice(["a {", "= 1", "a = 1 }"])
    ch = [p for p in params if p[1] == "choice"]
    if kind in ("choice", "choice+multi") and ch:
        t = "%s = nope" % rng.choice(ch)[0]
        mu = [p for p in params if p[3] or p[4]]
        if kind == "choice+multi" and mu:
            t = gen_edit(rng, mu) + "\n" + t
        return t
    it = [p for p in params if p[1] == "int"]
    if kind == "int" and it:
        return "%s = foo" % rng.choice(it)[0]
    return "zz = 1"


def gen_mutation(rng, params):
    cand = [p for p in params if not p[4]]
    if not cand:
        return None
    p = rng.choice(cand)
    path, t, alts, multi, in_ms = p
    if multi:
        v = [rng.choice(VAL[t]) for _ in range(rng.randint(0, 2))]
    elif t == "choice":
        v = rng.choice(alts)
    else:
        v = rng.choice(VAL[t]) if rng.random() < 0.9 else None
    return [path.split("."), v]


def gen_history(rng, tier, params, scopes, maxlen):
    n = rng.randint(1, maxlen)
    style = rng.choice(["all", "all", "nostack", "stackheavy", "py"])
    w = {"update": 25, "merge_s": 7, "merge_o": 7, "get": 20, "ufp_mut": 8, "ufp_none": 2, "push": 10, "pop": 8,
         "set": 4, "lookup": 3, "get_copy": 2}
    if style == "nostack":
        w.update({"pop": 0, "set": 0})
    elif style == "stackheavy":
        w.update({"push": 20, "pop": 18, "set": 10})
    elif style == "py":
        w.update({"ufp_mut": 25, "get": 25, "ufp_none": 5})
    valid = True
    bad_p = 0.0
    r = rng.random()
    if r < 0.12:
        bad_p = 0.2
    kinds = list(w)
    weights = [w[k] for k in kinds]
    ops = []
    all_paths = [p[0] for p in params] + [s[0] for s in scopes]
    depth_guess = 0
    while len(ops) < n:
        k = rng.choices(kinds, weights)[0]
        if bad_p and rng.random() < bad_p:
            valid = False
            c = rng.random()
            if c < 0.6:
                ops.append([rng.choice(["update", "merge_s", "merge_o"]), gen_bad_edit(rng, params), None, True])
            elif c < 0.8:
                ops.append([rng.choice(["reset", "erase"]), rng.choice(all_paths)])
            else:
                ops.append(["set", rng.choice([-1, 7])])
            continue
        if k in ("update", "merge_s", "merge_o"):
            only = rng.choice([s[0] for s in scopes]) if scopes and rng.random() < 0.1 else None
            flag = True if k == "update" else (rng.random() < 0.85)   # raise_sorry / overwrite_params
            op = [k, gen_edit(rng, params), only, flag]
            ops.append(op)
            if k == "update" and rng.random() < 0.2:
                ops.append(list(op))
        elif k == "ufp_mut":
            mu = gen_mutation(rng, params)
            if mu is not None:
                if rng.random() < 0.8:
                    ops.append(["get"])
                ops.append(["ufp_mut"] + mu)
                depth_guess += 1
        elif k == "set":
            ops.append(["set", rng.randint(0, max(0, depth_guess))])
            mu = [p for p in params if p[3] or p[4]]
            if mu and rng.random() < 0.5:
                # an edit of a .multiple object right after set_state: it deletes objects of the working tree in place, which must
                # not reach the state that stays on the stack
                ops.append(["update", gen_edit(rng, mu), None, True])
        elif k == "pop":
            # mostly only when the stack is (probably) non-empty; a few on an empty stack
            if depth_guess > 0 or rng.random() < 0.15:
                ops.append(["pop"])
                depth_guess = max(0, depth_guess - 1)
        elif k == "push":
            ops.append(["push"])
            depth_guess += 1
        elif k == "lookup":
            ops.append(["lookup", rng.choice(all_paths + ["zz", ""])])
        else:
            ops.append([k])
    ops.append(["get"])
    return ops, valid


def risky_f12(ops):
    """Signature of finding F12 on the op list alone: a pop_state/set_state, later a get_python_object (or
    update_from_python() without argument) with no update/merge_phil in between."""
    risky = False
    for i, op in enumerate(ops):
        k = op[0]
        if k in ("pop", "set"):
            risky = True
        elif k in ("update", "merge_s", "merge_o"):
            risky = False
        elif k in ("get", "ufp_none") and risky:
            return i
    return None


# ----------------------------------------------------------------------------- the stream
class Histories(Stream):
    name = "histories"
    cluster = "Index"
    impl_timeout = 20.0

    def __init__(self, ctx):
        super().__init__(ctx)
        self.fp = import_freephil()
        import freephil.interface
        self.iface = freephil.interface
        install_wrappers(self.fp)
        self._aux = {}

    # ---- cases
    def corpus(self):
        m1 = "a = 1\n  .type = int\n"
        m2 = ("a = 1\n  .type = int\nm = None\n  .type = int\n  .multiple = True\ns {\n  c = *p q\n    .type = choice\n}\n"
              "g\n  .multiple = True\n{\n  k = 0\n    .type = int\n}\n")
        P1 = [["a", "int", [], False, False]]
        P2 = [["a", "int", [], False, False], ["m", "int", [], True, False], ["s.c", "choice", ["p", "q"], False, False],
              ["g.k", "int", [], False, True]]
        S2 = [["s", False], ["g", True]]
        return [
            # F12 witness: cached object survives pop_state
            {"m": m1, "P": P1, "S": [], "v": True,
             "ops": [["push"], ["update", "a = 2", None, True], ["get"], ["pop"], ["get"]]},
            # same through set_state
            {"m": m1, "P": P1, "S": [], "v": True,
             "ops": [["push"], ["update", "a = 2", None, True], ["get"], ["set", 0], ["get"]]},
            # no intermediate get: cache was already invalid, pop is harmless
            {"m": m1, "P": P1, "S": [], "v": True,
             "ops": [["push"], ["update", "a = 2", None, True], ["pop"], ["get"]]},
            # multiples, update twice, python round trip
            {"m": m2, "P": P2, "S": S2, "v": True,
             "ops": [["update", "m = 1\nm = 2\ng { k = 5 }\ng { k = 6 }", None, True], ["get"], ["update", "m = 7", None, True],
                     ["update", "m = 7", None, True], ["get"], ["ufp_mut", ["a"], 9], ["get"], ["pop"], ["update", "a = 3", None, True],
                     ["get"], ["lookup", "g.k"], ["lookup", "m"]]},
            # F23 witness (repaired in /repo d2d0b2d): the self-fetch of push_state after update_from_python lost the
            # first value of a .multiple definition (the working tree came from master.format: no template entry)
            {"m": "m = None\n  .type = int\n  .multiple = True\n", "P": [["m", "int", [], True, False]], "S": [], "v": True,
             "ops": [["update", "m = 3\nm = 5", None, True], ["get"], ["ufp_mut", ["m"], [3, 5]], ["push"], ["pop"], ["get"]]},
            # same through the push_state inside update_from_python, and through set_state
            {"m": "m = None\n  .type = int\n  .multiple = True\n", "P": [["m", "int", [], True, False]], "S": [], "v": True,
             "ops": [["update", "m = 3\nm = 5", None, True], ["get"], ["ufp_mut", ["m"], [3, 5]], ["get"], ["ufp_mut", ["m"], [7]],
                     ["pop"], ["get"], ["set", 0], ["get"], ["push"], ["update", "m = 1", None, True], ["pop"], ["get"]]},
            # F23, second mechanism: the self-fetch dropped a deprecated definition set to a non-default value
            {"m": "d = 1\n  .type = int\n  .deprecated = True\n", "P": [["d", "int", [], False, False]], "S": [], "v": True,
             "ops": [["update", "d = 2", None, True], ["push"], ["update", "d = 3", None, True], ["pop"], ["get"]]},
            {"m": "a = 1\n  .type = int\nd = 1\n  .type = int\n  .deprecated = True\n",
             "P": [["a", "int", [], False, False], ["d", "int", [], False, False]], "S": [], "v": True,
             "ops": [["update", "d = 2", None, True], ["get"], ["push"], ["update", "a = 5", None, True], ["set", 0], ["get"],
                     ["update", "d = 7", None, True], ["pop"], ["get"], ["lookup", "d"]]},
            # set_state makes a saved state current WITHOUT removing it from the stack; an edit of a .multiple definition
            # (which deletes objects of the working tree in place) must not reach the saved copy
            {"m": m2, "P": P2, "S": S2, "v": True,
             "ops": [["update", "m = 1\nm = 2", None, True], ["get"], ["push"], ["update", "a = 7", None, True], ["set", 0],
                     ["update", "m = 3", None, True], ["get"], ["pop"], ["get"], ["lookup", "m"]]},
            {"m": m2, "P": P2, "S": S2, "v": True,
             "ops": [["update", "g { k = 5 }\ng { k = 6 }", None, True], ["push"], ["push"], ["set", 1],
                     ["update", "g { k = 9 }", None, True], ["set", 0], ["get"], ["pop"], ["get"], ["pop"], ["get"]]},
            # refused merge after the multiples were deleted (outside the domain: the edit is not valid)
            {"m": m2, "P": P2, "S": S2, "v": False,
             "ops": [["update", "m = 7", None, True], ["get"], ["merge_s", "m = 3\ns.c = zzz", None, True], ["get"]]},
            # reset_scope / erase_scope do not touch index and cache (outside the property's operations)
            {"m": m2, "P": P2, "S": S2, "v": False,
             "ops": [["update", "s.c = q\na = 5", None, True], ["get"], ["reset", "s"], ["get"]]},
            {"m": m2, "P": P2, "S": S2, "v": False, "ops": [["get"], ["erase", "s"], ["get"]]},
            {"m": m1, "P": P1, "S": [], "v": False,
             "ops": [["pop"], ["set", 0], ["push"], ["set", 3], ["set", -1], ["update", "a {", None, True], ["merge_s", "a {", None, True],
                     ["ufp_none"], ["update", "a = 4", None, True], ["ufp_none"], ["get"]]},
        ]

    def cases(self, rng, tier):
        n = 700 if tier == "quick" else 6000
        maxlen = 14 if tier == "quick" else 30
        for i in range(n):
            sub = random.Random(rng.getrandbits(48))
            text, params, scopes = gen_master(sub)
            ops, valid = gen_history(sub, tier, params, scopes, maxlen)
            if i % 35 == 7:
                # a deep undo stack: k edit+push rounds (k up to 70: no bound on the number of outstanding pushes), then k pops
                k = sub.choice([21, 25, 33, 40, 70])
                ops, valid = [], True
                for _ in range(k):
                    ops.append(["update", gen_edit(sub, params), None, True])
                    ops.append(["push"])
                ops.append(["update", gen_edit(sub, params), None, True])
                for j in range(k):
                    ops.append(["pop"])
                    if j % 7 == 0:
                        ops.append(["get"])
            yield {"m": text, "P": params, "S": scopes, "ops": ops, "v": valid}

    # ---- implementation
    def sample_paths(self, case):
        return [p[0] for p in case["P"]] + [s[0] for s in case["S"]] + ["", "zz"]

    def impl(self, case):
        fp = self.fp
        pool, pool_ix = [], {}

        checks = [0]

        def intern(tree):
            w = fast_wire(tree)
            if checks[0] < 3:
                checks[0] += 1
                if w != canon(tree_wire(tree)):
                    raise vlib.HarnessError("fast_wire differs from the vlib tree codec")
            k = json.dumps(w)
            i = pool_ix.get(k)
            if i is None:
                i = pool_ix[k] = len(pool)
                pool.append(w)
            return i

        rec = []
        # histories with refused edits / reset_scope / erase_scope mutate the working tree in place behind the
        # index: identity (position) of looked-up objects is not compared there, only none / one / many(n)
        ident = case.get("v", True)
        paths = self.sample_paths(case)
        sink = io.StringIO()
        steps, extra = [], []
        aux = {"pool": pool, "rec": rec, "ops": []}
        try:
            master = fp.parse(case["m"])
        except BaseException as e:  # noqa
            return {"init": ["bad-master", ecls(e)], "steps": [], "x": []}
        mid = intern(master)
        aux["mid"] = mid
        _Log.rec, _Log.intern, _Log.depth = rec, intern, 0
        try:
            with contextlib.redirect_stdout(sink):
                try:
                    ix = self.iface.index(master_phil=master)
                except BaseException as e:  # noqa
                    self._aux[self.key(case, None)] = aux
                    return {"init": ["err", ecls(e)], "steps": [], "x": []}

                def positions():
                    d = {}

                    def walk(o, pos):
                        d[id(o)] = pos
                        if o.is_scope:
                            for j, k in enumerate(o.objects):
                                walk(k, pos + [j])
                    walk(ix.working_phil, [])
                    return d

                def look(path, posd):
                    r = ix.get_scope_by_name(path)
                    if r is None:
                        return ["none"]
                    if not ident:
                        return ["many", str(len(r))] if isinstance(r, list) else ["one"]
                    f = lambda o: [str(j) for j in posd[id(o)]] if id(o) in posd else "stale"  # noqa
                    if isinstance(r, list):
                        return ["many", [f(o) for o in r]]
                    return ["one", f(r)]

                def dead_paths():
                    """paths (not inside a multiple scope) whose lookup is not the live object(s)"""
                    exp = {}

                    def walk(o, prefix, in_ms):
                        if o.is_template < 0:
                            return
                        fpth = o.name if prefix == "" else prefix + "." + o.name
                        if o.name != "" and not in_ms:
                            exp.setdefault(fpth, []).append(o)
                        if o.is_scope:
                            for k in o.objects:
                                walk(k, "" if o.name == "" else fpth, in_ms or (o.multiple is True))
                    walk(ix.working_phil, "", False)
                    bad = []
                    for p, objs in exp.items():
                        r = ix.get_scope_by_name(p)
                        if any(o.multiple is True for o in objs):
                            ok = isinstance(r, list) and len(r) == len(objs) and all(a is b for a, b in zip(r, objs))
                        else:
                            ok = len(objs) == 1 and r is objs[0]
                        if not ok:
                            bad.append(p)
                    return sorted(bad)

                stack_ids = {}   # id(tree) -> (tree, pool id): stacked trees are never modified while stacked

                def sid(t):
                    e = stack_ids.get(id(t))
                    if e is None or e[0] is not t:
                        e = stack_ids[id(t)] = (t, str(intern(t)))
                    return e[1]

                def observe():
                    posd = positions()
                    obs = [str(intern(ix.working_phil)), [sid(t) for t in ix._states],
                           [look(p, posd) for p in paths]]
                    try:
                        ext = ["ok", dump_py(ix.working_phil.extract())]
                    except BaseException as e:  # noqa
                        ext = ["err", ecls(e)]
                    x = {"text": ix.working_phil.as_str(), "ext": ext, "dead": dead_paths()}
                    return obs, x

                obs0, x0 = observe()
                init = ["ok", obs0]
                last_obj = [None]
                for op in case["ops"]:
                    k = op[0]
                    mop = None
                    try:
                        if k in ("update", "merge_s", "merge_o"):
                            text, only, flag = op[1], op[2], op[3]
                            _Log.rec = None
                            try:
                                try:
                                    parsed = fp.parse(text)
                                    mop = ["update" if k == "update" else "merge", intern(parsed), ["none"] if only is None else ["some", only], flag]
                                except BaseException as e:  # noqa
                                    parsed = None
                                    mop = ["badtext", k == "update", ecls(e)]
                            finally:
                                _Log.rec = rec
                            if k == "update":
                                r = ix.update(text, only_scope=only, raise_sorry=flag)
                            elif k == "merge_s":
                                r = ix.merge_phil(phil_string=text, only_scope=only, overwrite_params=flag)
                            else:
                                if parsed is None:
                                    raise RuntimeError("unparsable")
                                r = ix.merge_phil(phil_object=parsed, only_scope=only, overwrite_params=flag)
                            out = ["none"] if r is None else ["ret", r]
                        elif k in ("get", "get_copy"):
                            mop = ["getpy", k == "get_copy"]
                            before = ix.params
                            r = ix.get_python_object(make_copy=(k == "get_copy"))
                            last_obj[0] = r
                            out = ["py", dump_py(r), r is not before]
                        elif k == "ufp_none" or (k == "ufp_mut" and last_obj[0] is None):
                            mop = ["ufp", ["none"]]
                            r = ix.update_from_python()
                            out = ["none"] if r is None else ["ret", r]
                        elif k == "ufp_mut":
                            o = last_obj[0]
                            try:
                                tgt = o
                                for a in op[1][:-1]:
                                    tgt = getattr(tgt, a)
                                setattr(tgt, op[1][-1], op[2])
                            except AttributeError:
                                pass
                            mop = ["ufp", ["some", dump_py(o)]]
                            r = ix.update_from_python(o)
                            out = ["none"] if r is None else ["ret", r]
                        elif k == "push":
                            mop = ["push"]
                            out = ["idx", ix.push_state()]
                        elif k == "pop":
                            mop = ["pop"]
                            out = ["ret", ix.pop_state()]
                        elif k == "set":
                            mop = ["setstate", op[1]]
                            out = ["ret", ix.set_state(op[1])]
                        elif k == "lookup":
                            mop = ["lookup", op[1]]
                            out = ["entry", look(op[1], positions())]
                        elif k == "reset":
                            mop = ["reset", op[1]]
                            r = ix.reset_scope(op[1])
                            out = ["none"]
                        elif k == "erase":
                            mop = ["erase", op[1]]
                            r = ix.erase_scope(op[1])
                            out = ["none"]
                        else:
                            raise vlib.HarnessError("unknown op %r" % (op,))
                    except vlib.HarnessError:
                        raise
                    except vlib.Timeout:
                        raise
                    except BaseException as e:  # noqa
                        out = ["err", ecls(e)]
                    aux["ops"].append(mop)
                    obs, x = observe()
                    steps.append([canon(out)] + obs)
                    extra.append(x)
        finally:
            _Log.rec = None
        self._aux[self.key(case, None)] = aux
        return {"init": init, "steps": steps, "x": [x0] + extra}

    # ---- model
    def requests(self, case, impl_obs):
        if not isinstance(impl_obs, dict):
            return []             # the history itself raised something unexpected / timed out: judged by prop
        if impl_obs["init"][0] == "bad-master":
            return []
        aux = self._aux.pop(self.key(case, None), None)
        if aux is None:
            self.impl(case)
            aux = self._aux.pop(self.key(case, None))
        ft = [[k[0], k[1], r] for kind, k, r in aux["rec"] if kind == "fetch"]
        et = [[k, r] for kind, k, r in aux["rec"] if kind == "extract"]
        mt = [[k[0], k[1], r] for kind, k, r in aux["rec"] if kind == "format"]
        ops = [m for m in aux["ops"]]
        if any(m is None for m in ops):
            ops = [m for m in ops if m is not None]
        return [("history", [CODE_FIXED, aux["mid"], aux["pool"], ft, et, mt, self.sample_paths(case), ops])]

    def model(self, case, replies, impl_obs):
        if not replies:
            return impl_obs
        r = replies[0]
        if r == ["badinput"] or (r and r[0] == "!driver"):
            return {"init": ["model-rejected-request", r], "steps": [], "x": impl_obs["x"]}
        init, steps = r
        if not case.get("v", True):
            red = lambda e: e if e[0] == "none" else (["one"] if e[0] == "one" else ["many", str(len(e[1]))])  # noqa
            if init[0] == "ok":
                init = ["ok", [init[1][0], init[1][1], [red(e) for e in init[1][2]]]]
            steps = [[(["entry", red(st[0][1])] if st[0][0] == "entry" else st[0]), st[1], st[2], [red(e) for e in st[3]]]
                     for st in steps]
        return {"init": init, "steps": steps, "x": impl_obs["x"]}

    # ---- the property on the implementation
    def prop_detail(self, case, o):
        """-> None or (step index, kind, text)"""
        if o["init"][0] != "ok":
            return (-1, "init", "index construction failed: %r" % (o["init"],))
        xs = o["x"]
        if xs[0]["dead"]:
            return (-1, "lookup", "after set-up: paths %r do not look up to the live objects" % (xs[0]["dead"],))
        shadow = []           # (text, extraction) at the pushes
        prev_depth = 0
        prev_text, prev_ext = xs[0]["text"], xs[0]["ext"]
        ops = case["ops"]
        for i, (op, st) in enumerate(zip(ops, o["steps"])):
            out, wid, stack, looks = st
            x = xs[i + 1]
            depth = len(stack)
            if out[0] == "py":
                if x["ext"] != ["ok", out[1]]:
                    return (i, "handout", "handout: step %d %s: get_python_object() gives %s but working_phil.extract() gives %s"
                            % (i, op[0], out[1], x["ext"]))
            if x["dead"]:
                return (i, "lookup", "lookup: after step %d %r paths %r do not look up to the live object(s) of working_phil"
                        % (i, op, x["dead"]))
            if depth == prev_depth + 1:
                shadow.append((prev_text, prev_ext))
            elif depth == prev_depth - 1:
                want = shadow.pop() if shadow else None
                if op[0] == "pop" and out == ["ret", "1"] and want is not None and (x["text"], x["ext"]) != want:
                    return (i, "pop", "pop: step %d pop_state() restored %r (extracting to %s), at the matching push it was %r (%s)"
                            % (i, x["text"], x["ext"][1], want[0], want[1][1]))
            if (op[0] == "update" and i > 0 and ops[i - 1] == op and out == ["none"] and o["steps"][i - 1][0] == ["none"]
                    and x["text"] != prev_text):
                return (i, "twice", "twice: step %d the same update applied again changed working_phil: %r -> %r"
                        % (i, prev_text, x["text"]))
            prev_depth, prev_text, prev_ext = depth, x["text"], x["ext"]
        return None

    def prop(self, case, o):
        if not isinstance(o, dict):
            return "the history did not complete: %r" % (o,)
        d = self.prop_detail(case, o)
        return None if d is None else d[2]

    def in_domain(self, case):
        if not case.get("v", True):
            return False          # refused / out-of-domain edits, reset_scope, erase_scope: correspondence only
        if not CODE_FIXED and not F12_LISTED_OPEN and risky_f12(case["ops"]) is not None:
            return False          # finding F12 (stale cache after pop_state/set_state), see match_finding
        return True

    def key(self, case, o):
        return json.dumps([case["m"], case["ops"]], sort_keys=True)

    def tag(self, case, o):
        ks = set(op[0] for op in case["ops"])
        t = []
        if ks & {"pop", "set"}: t.append("stack")
        if ks & {"ufp_mut", "ufp_none"}: t.append("py")
        if ".multiple" in case["m"]: t.append("multi")
        if not case.get("v", True): t.append("invalid")
        n = len(case["ops"])
        t.append("len<=5" if n <= 5 else "len<=15" if n <= 15 else "len>15")
        return "+".join(t)

    def shrink(self, case):
        ops = case["ops"]
        for i in range(len(ops)):
            c = dict(case)
            c["ops"] = ops[:i] + ops[i + 1:]
            yield c
        for i in range(len(ops)):
            c = dict(case)
            c["ops"] = ops[: i + 1]
            if len(c["ops"]) < len(ops):
                yield c

    def neighbours(self, case, rng):
        yield from self.shrink(case)
        ops = case["ops"]
        for i in range(len(ops) + 1):
            for extra in (["get"], ["push"], ["pop"], ["set", 0]):
                c = dict(case)
                c["ops"] = ops[:i] + [extra] + ops[i:]
                yield c


def match_finding(finding, failure):
    """F12: the failing step is a get_python_object after a successful pop_state/set_state with no
    update/merge_phil in between (stale cache after pop_state/set_state)."""
    what = failure.get("what", "")
    if finding.get("id") != "F12":
        return False
    if not what.startswith("handout:"):
        return False
    try:
        k = int(what.split()[2])
    except Exception:  # noqa
        return False
    ops = failure["case"]["ops"]
    steps = failure["impl"]["steps"]
    for j in range(k - 1, -1, -1):
        kind = ops[j][0]
        if kind in ("update", "merge_s", "merge_o") and steps[j][0] == ["none"]:
            return False
        if kind in ("pop", "set") and steps[j][0] == ["ret", "1"]:
            return True
    return False


SPEC = {
    "clusters": ["Index"],
    "streams": [Histories],
    "rule": "seeded random fully typed masters (1-2 top-level definitions, 0-2 scopes, optional nested scope, optionally one "
            ".multiple definition and/or one .multiple scope; types int/str/bool/choice) x random histories (quick <= 14, thorough <= 30 "
            "operations + a final get_python_object) over update / merge_phil(string|object) / update_from_python / push / pop / set_state / "
            "get_python_object / get_scope_by_name, edit texts from the master's paths with in-domain values; ~12% of the histories also "
            "contain refused edits, reset_scope, erase_scope, bad set_state arguments (correspondence only); distinct = distinct (master, history)",
    "trusted": ["Modelled (Model/Index.v): interface.index set-up, build_index/rebuild_index (index_phil_objects, reindex_phil_objects: path index only), "
                "push_state, pop_state, set_state, update_from_python, get_python_object, get_scope_by_name, merge_phil, update, reset_scope, "
                "erase_scope, delete_phil_objects, get_all_path_names, full_path",
                "Oracles (not modelled, replayed from the recorded real calls, keyed by argument content): scope.fetch, scope.extract, scope.format; "
                "freephil.parse (operations carry parsed trees); extracted python objects are opaque tokens (canonical dump)",
                "Theorem hypotheses on the oracles: H_fmt (extract (format m p) = p on round-trip objects, C09), H_ext_ok (extracted objects are "
                "round-trip objects), H_tmpl (is_template of a fetch result is -1, 0 or 1; set-up only); C20_update_twice: H_refetch, re-fetch stability of "
                "the updated tree (C07-like; no counterexample seen), evaluated on the implementation by prop.  C20_pop_restores has no hypothesis on "
                "the library (push_state/set_state copy by value since /repo d2d0b2d, F23 repaired); prop evaluates it on the implementation with a "
                "shadow stack (text + extraction at every push, compared after the matching pop)",
                "The theorems quantify over histories in which no step raised after it had already modified the index (run_ok); a merge_phil whose "
                "fetch raises after delete_phil_objects has pruned the working tree leaves index and cache stale (reported, outside the domain: refused edit)",
                "Object identity is modelled by position in the tree the index was built from; aliasing between the handed-out python object and "
                "the cache is handled by the harness (mutation + update_from_python is one operation)"],
    "modelled": "interface.index control logic modelled by hand in Model/Index.v; fetch/extract/format are oracles answered from the recorded calls "
                "of the real library (no claim about them in this check beyond the prop oracle: pop restores text, same update twice is idempotent)",
    "assumptions": ["masters are fully typed and alias-free; text restricted to code points < 256",
                    "CODE_FIXED=%s (model replays %s pop_state/set_state); histories with the signature of F12 are %s the domain"
                    % (CODE_FIXED, "repaired" if CODE_FIXED else "unrepaired (F12)", "inside" if (CODE_FIXED or F12_LISTED_OPEN) else "outside")],
    "match_finding": match_finding,
}
