"""C03 - quoting any string and tokenizing it back returns exactly that string."""
import itertools

from vlib import Stream, exc_class, err_line, word_obs, import_freephil

ALPHA = ["'", '"', "\\", "\n", " ", "$", "#", "{", "}", ";", "=", "a"]
STYLES = {"1": "'", "2": '"', "s": "'''", "d": '"""'}


def tok_obs(f):
    """Run a tokenizing thunk; canonical observation."""
    try:
        ws = f()
    except Exception as e:  # noqa
        return ["err", exc_class(e), str(err_line(str(e)))]
    return ["ok", [word_obs(w) for w in ws]]


def model_tok_obs(reply):
    if reply[0] == "ok":
        return ["ok", reply[1]]
    if reply[0] == "uerr":
        return ["err", "RuntimeError", reply[3]]
    return ["err", "other:" + reply[1], "0"]


def gen_strings(rng, tier):
    maxlen = 4 if tier == "quick" else 5
    for n in range(maxlen + 1):
        for t in itertools.product(ALPHA, repeat=n):
            yield "".join(t)
    # random beyond the bound: class alphabet (long) and all 256 code points
    nrand = 3000 if tier == "quick" else 40000
    for i in range(nrand):
        n = rng.randint(5, 60 if i % 2 else 300)
        if i % 3 == 0:
            yield "".join(chr(rng.randrange(256)) for _ in range(n))
        else:
            yield "".join(rng.choice(ALPHA) for _ in range(n))


class ValueLiteral(Stream):
    name = "value_literal"
    cluster = "Tok"

    def __init__(self, ctx):
        super().__init__(ctx)
        self.fp = import_freephil()
        from freephil import tokenizer
        self.tk = tokenizer

    def corpus(self):
        return [["1", ""], ["2", "\\"], ["s", "''"], ["d", 'a"""'], ["1", "\\'"], ["2", "\\\n"]]

    def cases(self, rng, tier):
        for s in gen_strings(rng, tier):
            for q in STYLES:
                yield [q, s]

    def impl(self, case):
        q, s = case
        quoted = str(self.tk.word(value=s, quote_token=STYLES[q]))
        return [quoted, tok_obs(lambda: self.fp.tokenize_value_literal(quoted, None))]

    def requests(self, case, impl_obs):
        q, s = case
        # the model tokenizes the text the *implementation* printed as well as printing itself
        return [("quote", [q, s]), ("tokenize", ["v", impl_obs[0]])]

    def model(self, case, replies, impl_obs):
        return [replies[0], model_tok_obs(replies[1])]

    def prop(self, case, o):
        q, s = case
        if o[1] != ["ok", [[s, q, "1"]]]:
            return "tokenize_value_literal(quote(%r, style %s)) gave %r" % (s, STYLES[q], o[1])
        return None

    def key(self, case, o):
        return (case[0], case[1]) if case[1] else None

    def tag(self, case, o):
        s = case[1]
        t = []
        if "\\" in s: t.append("bs")
        if STYLES[case[0]][0] in s: t.append("q")
        if "\n" in s: t.append("nl")
        return "+".join(t) or "plain"

    def shrink(self, case):
        q, s = case
        for i in range(len(s)):
            yield [q, s[:i] + s[i + 1:]]

    def neighbours(self, case, rng):
        q, s = case
        for c in self.shrink(case):
            yield c
        for i in range(len(s) + 1):
            for a in ALPHA:
                yield [q, s[:i] + a + s[i:]]
        for q2 in STYLES:
            yield [q2, s]


TAILS = ["\nb = 1\n", " x\nb = 1", ";b=1", "\n", ""]


class InDocument(Stream):
    """The quoted text as the value of a definition followed by further definitions.
    Correspondence: the value-context tokenizer (settings index 1, and index 0) on
    quoted+tail.  Property oracle: freephil.parse of the whole document."""
    name = "in_document"
    cluster = "Tok"

    def __init__(self, ctx):
        super().__init__(ctx)
        self.fp = import_freephil()
        from freephil import tokenizer
        self.tk = tokenizer

    def corpus(self):
        return [["2", "", 0], ["1", "\n", 0], ["d", "\\\n\\", 1]]

    def cases(self, rng, tier):
        maxlen = 3 if tier == "quick" else 4
        for n in range(maxlen + 1):
            for t in itertools.product(ALPHA, repeat=n):
                s = "".join(t)
                for q in STYLES:
                    if n <= 2:
                        for t in range(len(TAILS)):
                            yield [q, s, t]
                    else:
                        yield [q, s, (len(s) + sum(map(ord, s))) % 3]
        nrand = 2000 if tier == "quick" else 30000
        for i in range(nrand):
            n = rng.randint(4, 80)
            s = "".join(chr(rng.randrange(256)) for _ in range(n)) if i % 3 == 0 else "".join(rng.choice(ALPHA) for _ in range(n))
            yield [rng.choice("12sd"), s, rng.randrange(len(TAILS))]

    def settings(self):
        tk = self.tk
        return [tk.settings(unquoted_single_character_words="{}=", contiguous_word_characters="",
                            comment_characters="#", meta_comment="phil"),
                tk.settings(unquoted_single_character_words="{};", contiguous_word_characters="")]

    def doc(self, case):
        q, s, t = case
        return str(self.tk.word(value=s, quote_token=STYLES[q])) + TAILS[t]

    def impl(self, case):
        text = self.doc(case)
        out = []
        for idx in (1, 0):
            def f():
                it = self.tk.word_iterator(input_string=text, list_of_settings=self.settings())
                ws = []
                while True:
                    w = it.try_pop(settings_index=idx)
                    if w is None:
                        return ws
                    ws.append(w)
            out.append(tok_obs(f))
        # the parse-level observation (what the property states)
        try:
            tree = self.fp.parse("a = " + text)
            a = tree.objects[0]
            obs = [[o.name, [word_obs(w) for w in o.words], o.where_str] for o in tree.objects[:1]]
            rest = [[o.name, o.where_str] for o in tree.objects[1:] if o.is_definition]
            out.append(["ok", obs, rest])
        except Exception as e:  # noqa
            out.append(["err", exc_class(e)])
        return out

    def requests(self, case, impl_obs):
        text = self.doc(case)
        return [("tokenize", ["1", text]), ("tokenize", ["0", text])]

    def model(self, case, replies, impl_obs):
        return [model_tok_obs(replies[0]), model_tok_obs(replies[1]), impl_obs[2]]

    def prop(self, case, o):
        q, s, t = case
        p = o[2]
        if p[0] != "ok":
            return "parse of a = <quoted>%r failed: %r" % (TAILS[t], p)
        name, words, where = p[1][0]
        if t in (0, 1, 2, 3, 4):
            if not words or words[0][:2] != [s, q]:
                return "first word of a is %r, expected (%r, %s)" % (words[:1], s, q)
        if t in (0, 3, 4) and len(words) != 1:
            return "a has %d words, expected 1" % len(words)
        if t in (0, 1, 2):
            bs = [r for r in p[2] if r[0] == "b"]
            if len(bs) != 1:
                return "definition b lost or duplicated: %r" % (p[2],)
            want = 1 + s.count("\n") + (0 if t == 2 else 1)
            if bs[0][1] != " (input line %d)" % want:
                return "b reported at %r, expected line %d" % (bs[0][1], want)
        return None

    def in_domain(self, case):
        # tail 1 puts a further word after the quoted one: only meaningful when the quoted
        # word ends on the line it started on (a later line starts a new definition)
        return not (case[2] == 1 and "\n" in case[1])

    def key(self, case, o):
        return tuple(case) if case[1] else None

    def tag(self, case, o):
        return "tail%d" % case[2]

    def shrink(self, case):
        q, s, t = case
        for i in range(len(s)):
            yield [q, s[:i] + s[i + 1:], t]

    def neighbours(self, case, rng):
        q, s, t = case
        yield from self.shrink(case)
        for i in range(len(s) + 1):
            for a in ALPHA:
                yield [q, s[:i] + a + s[i:], t]


class InDocumentParse(InDocument):
    """Same cases; correspondence at parser level: freephil.parse("a = " + quoted + tail) against the
    extracted parser model (trees with line numbers)."""
    name = "in_document_parse"
    cluster = "Parse"

    def impl(self, case):
        import parse_common as pc
        o, _ = pc.impl_parse(self.fp, "a = " + self.doc(case))
        full = InDocument.impl(self, case)
        return [o if o[0] != "ok" else ["ok", [vlib_strip(t) for t in o[1]]], full[2]]

    def requests(self, case, impl_obs):
        return [("parse", [[], "a = " + self.doc(case)])]

    def model(self, case, replies, impl_obs):
        import parse_common as pc
        m = pc.model_parse_obs(replies[0])
        if m == "UNMODELLED":
            return m
        return [m if m[0] != "ok" else ["ok", [vlib_strip(t) for t in m[1]]], impl_obs[1]]

    def prop(self, case, o):
        return InDocument.prop(self, case, [None, None, o[1]])


def vlib_strip(t):
    import vlib
    return vlib.strip_tree(t, keep_line=True)


class CharTable(Stream):
    """isspace / lower for all 256 code points (preamble of every tokenizer-based check)."""
    name = "chartable"
    cluster = "Tok"

    def cases(self, rng, tier):
        return [["all256"]]

    def impl(self, case):
        return [["1" if chr(i).isspace() else "0", chr(i).lower() if len(chr(i).lower()) == 1 and ord(chr(i).lower()) < 256 else chr(i)] for i in range(256)]

    def requests(self, case, o):
        return [("chartable", [])]

    def model(self, case, replies, o):
        return replies[0]


class PrintedDocument(Stream):
    """The printer as the quoting side: a definition whose single value word is the string, printed by
    definition.as_str() (the writer behind scope.show / as_str / format output), followed by another definition, parsed
    back.  Blanks before an embedded newline, and long strings with escapes anywhere, come back verbatim.  Oracle only."""
    name = "printed_document"
    cluster = "Tok"

    def __init__(self, ctx):
        super().__init__(ctx)
        self.fp = import_freephil()
        from freephil import tokenizer
        self.tk = tokenizer

    def cases(self, rng, tier):
        small = ["'", '"', "\\", "\n", " ", "\t", "a", "#", ";"]
        for n in range(4 if tier == "quick" else 5):
            for t in itertools.product(small, repeat=n):
                yield [rng.choice(sorted(STYLES)), "".join(t)]
        tails = ["\\", "\\'", '"', "\\\\", "'\\", " \n", "\t\nx", ""]
        for k in range(0, 200, 1 if tier != "quick" else 3):
            yield [rng.choice(sorted(STYLES)), "x" * k + rng.choice(tails)]
        for _ in range(300 if tier == "quick" else 4000):
            yield [rng.choice(sorted(STYLES)), "".join(rng.choice(["x", "y ", "\\", "'", '"', " \n", "\t", "ab"]) for _ in range(rng.randint(30, 140)))]

    def impl(self, case):
        q, s = case
        d = self.fp.definition(name="a", words=[self.tk.word(value=s, quote_token=STYLES[q])])
        out = []
        for width in (79, 40):
            text = d.as_str(print_width=width) + "b = 1\n"
            try:
                t = self.fp.parse(text)
                out.append(["ok", [[o.name, [[w.value, w.quote_token] for w in o.words]] for o in t.objects]])
            except Exception as e:  # noqa
                out.append(["err", exc_class(e), text[:120]])
        return out

    def requests(self, case, o):
        return []

    def model(self, case, replies, o):
        return o

    def prop(self, case, o):
        q, s = case
        want = ["ok", [["a", [[s, STYLES[q]]]], ["b", [["1", None]]]]]
        for w, x in zip((79, 40), o):
            if x != want:
                return "printed at width %d and parsed back, the value %r (style %s) reads %r" % (w, s, STYLES[q], x)
        return None

    def tag(self, case, o):
        return "ok" if self.prop(case, o) is None else "fail"


class BeyondLatin1(Stream):
    """Strings with characters beyond Latin-1 (the model's alphabet ends at code point 255): decomposed / compatibility forms,
    combining marks, CJK, astral characters, zero-width and bidi characters - quoted, then tokenized stand-alone and inside
    a document.  Oracle only: the tokenizer treats every character above 255 like an ordinary letter and changes nothing."""
    name = "beyond_latin1"
    cluster = "Tok"
    PIECES = ["e\u0301", "\u212b", "\u2126", "A\u030a", "\ufb01", "\u65e5\u672c", "\U0001f600", "\u200b", "\u202e", "\u0130", "\u03c2",
              "\u00e9", "\u00df", "\u1e9e", "\u2028", "\u0085", "\ufeff", "x", " ", "'", '"', "\\", "\n", "#", ";", "$"]

    def __init__(self, ctx):
        super().__init__(ctx)
        self.fp = import_freephil()
        from freephil import tokenizer
        self.tk = tokenizer

    def corpus(self):
        return [[q, s] for q in STYLES for s in ("d_min 1.5 \u212b", "caf\u0065\u0301", "\u2126 \u03a9", "\u65e5\u672c\u8a9e 'x'")]

    def cases(self, rng, tier):
        for _ in range(800 if tier == "quick" else 12000):
            s = "".join(rng.choice(self.PIECES) for _ in range(rng.randint(1, 8)))
            yield [rng.choice(sorted(STYLES)), s]

    def impl(self, case):
        q, s = case
        quoted = str(self.tk.word(value=s, quote_token=STYLES[q]))
        a = tok_obs(lambda: self.fp.tokenize_value_literal(quoted, None))
        try:
            t = self.fp.parse("a = " + quoted + "\nb = 1\n")
            b = ["ok", [[o.name, [[w.value, w.quote_token] for w in o.words]] for o in t.objects]]
        except Exception as e:  # noqa
            b = ["err", exc_class(e)]
        return [a, b]

    def requests(self, case, o):
        return []

    def model(self, case, replies, o):
        return o

    def prop(self, case, o):
        q, s = case
        if o[0][0] != "ok" or [w[0] for w in o[0][1]] != [s] or [w[1] for w in o[0][1]] != [q]:
            return "tokenize_value_literal(quote(%r, style %s)) gave %r" % (s, STYLES[q], o[0])
        if o[1] != ["ok", [["a", [[s, STYLES[q]]]], ["b", [["1", None]]]]]:
            return "in a document the quoted %r (style %s) came back as %r" % (s, STYLES[q], o[1])
        return None

    def tag(self, case, o):
        return "ok" if self.prop(case, o) is None else "fail"


SPEC = {
    "clusters": ["Tok", "Parse"],
    "streams": [CharTable, ValueLiteral, InDocument, InDocumentParse, PrintedDocument, BeyondLatin1],
    "rule": "exhaustive strings up to the length bound over the 12-class alphabet of the property x 4 quote styles "
            "(value literal; in-document with 5 tails), plus seeded random strings to length 300 over the class alphabet "
            "and over all 256 code points; distinct = distinct (style, string[, tail]); non-trivial = non-empty string",
    "trusted": ["Modelled: tokenizer.escape_python_str, quote_python_str, word.__str__, word_iterator.__next__ (all branches), "
                "tokenize_value_literal, and the parser (collect_assigned_words / collect_objects) for the in-document stream; the parse-level clause "
                "(definition b intact, line of b) is checked on the implementation by the oracle and by correspondence with the parser model, "
                "and proved at tokenizer level (C03_in_context: rest and line counter after the quoted word)"],
    "modelled": "Python tokenizer modelled by hand in coq/theories/Model/Tokenizer.v; freephil.parse is exercised by the oracle only in this check",
    "assumptions": ["text restricted to code points < 256"],
}
