"""C04 - a fetch result has exactly the master's parameter structure.

Stream fetch_shape (cluster Fetch): generated master x 0-4 sources generated from the master's paths.
Plan per case (every step is compared with the extracted model, Model/Fetch.v):
  0  master.fetch(sources)                            the result tree at full detail, or error class + kind
  1  master.fetch(sources without disabled objects)   "disabled source objects are ignored entirely"
Property oracle on the implementation's observations (independent of the model):
  shape   - shape_ok(master, result) re-implemented on the wire trees (Properties/C04.v: C04_shape)
  srcdis  - step 1 observes exactly what step 0 observes (C04_disabled_sources_ignored; evaluated for sources with
            $variables too, where it also rests on variable lookup skipping disabled objects)
  A disabled master object is no entry of shape_ok (C04_disabled_master_never_set), so "shape" also says that a
  disabled master parameter contributes nothing except verbatim inside template copies of its enclosing scope.
  (NOT claimed: that deleting a disabled master object leaves the result unchanged - inside nested multiple
  scopes the implementation's canonical rendering sees it, see the report: observation "disabled-in-nested-multiple".)
A fifth of the cases runs with diff=True: correspondence and the two metamorphic clauses, no shape claim.
"""
import json

import vlib
from vlib import canon, objs_sx

import fetch_common as fc
from fetch_common import (FetchStream, t_name, t_dis, t_tmpl, t_multiple, t_deprecated, t_mandatory, has_dollar)


# ----------------------------------------------------------------------------- shape_ok, independently
def master_entries(objs):
    """master_active_objects on wire trees; None if it would raise (duplicate non-multiple definition)."""
    first = {}
    out = []
    for o in objs:
        if t_dis(o):
            continue
        n = t_name(o)
        f = first.setdefault(n, o)
        if f is not o:
            if t_multiple(f):
                continue
            if o[0] == "def":
                return None
        out.append(o)
    return out


def hdr_with(h, tmpl):
    h = list(h)
    h[2] = tmpl
    return h


def strings_of(words):
    """strings_from_words on wire words"""
    if len(words) == 1 and words[0][1] == "n" and words[0][0].lower() in ("none", "auto"):
        return words[0][0].lower()
    return [w[0] for w in words]


def is_choice(k):
    v = fc.t_attr(k, "type")
    return v is not None and v[0] == "type" and v[1][0] == "choice"


def is_value_of(k, o):
    """o is a definition carrying k's header (is_template 0) and k's attributes; any words - but a deprecated
    (non-choice) definition shows a value only if its strings differ from the master's"""
    if not (o[0] == "def" and k[0] == "def" and o[1] == hdr_with(k[1], "0") and o[3] == k[3]):
        return False
    if t_deprecated(k) and not is_choice(k) and strings_of(o[2]) == strings_of(k[2]):
        return False
    return True


def is_scope_of(k, o):
    return (o[0] == "scope" and k[0] == "scope" and o[1] == hdr_with(k[1], "0") and o[3] == k[3]
            and shape_objs(k[2], o[2]) is None)


def is_instance_of(k, o):
    return is_value_of(k, o) if k[0] == "def" else is_scope_of(k, o)


def shape_objs(mobjs, robjs):
    """None if robjs is the concatenation of one admissible block per master entry, else a reason."""
    ents = master_entries(mobjs)
    if ents is None:
        return "a result was returned for a master with duplicate non-multiple definitions"
    n = len(robjs)

    def go(ei, ri):
        if ei == len(ents):
            return ri == n
        k = ents[ei]
        if not t_multiple(k):
            if k[0] == "def":
                if t_deprecated(k) and go(ei + 1, ri):
                    return True
                if ri < n and (is_value_of(k, robjs[ri]) or (robjs[ri] == k and not t_deprecated(k))):
                    return go(ei + 1, ri + 1)
                return False
            return ri < n and is_scope_of(k, robjs[ri]) and go(ei + 1, ri + 1)
        if ri >= n:
            return False
        t = robjs[ri]
        if [t[0], hdr_with(t[1], "0"), t[2], t[3]] != [k[0], hdr_with(k[1], "0"), k[2], k[3]]:
            return False
        cnt = 0
        while True:
            want = "0" if t_mandatory(k) else ("1" if cnt == 0 else "-1")
            if t_tmpl(t) == want and go(ei + 1, ri + 1 + cnt):
                return True
            if ri + 1 + cnt < n and is_instance_of(k, robjs[ri + 1 + cnt]):
                cnt += 1
            else:
                return False

    if go(0, 0):
        return None
    return "result objects %s are not one block per master entry %s" % (
        [(o[0], t_name(o), t_tmpl(o)) for o in robjs], [(k[0], t_name(k)) for k in ents])


class FetchShape(FetchStream):
    name = "fetch_shape"

    def plan(self, case):
        n = len(case["s"])
        d = bool(case.get("diff"))
        return [
            {"master": "m", "sources": [["s", i] for i in range(n)], "diff": d, "track": False},
            {"master": "m", "sources": [["sd", i] for i in range(n)], "diff": d, "track": False},
            # the usual "working = master.fetch()" idiom: a fetch RESULT (templates flagged) used as the master
            {"master": "m", "sources": [], "diff": False, "track": False},
            {"master": ["r", 2], "sources": [["s", i] for i in range(n)], "diff": d, "track": False, "lenient_oracle": True},
        ]

    def corpus(self):
        return [
            # formerly F10 (repaired in /repo af676a9): a disabled definition no longer supplies $y
            {"m": "a = 1\n", "s": ["!y = 5\na = $y\n"], "env": [], "diff": 0, "kind": "var"},
            {"m": "a = 1\n", "s": ["y = 4\n!y = 5\na = $y\n"], "env": [], "diff": 0, "kind": "var"},
            # a disabled SCOPE (brace style, dotted-name style, nested) before a dotted reference: never searched
            {"m": "a = 0\n", "s": ["s { x = 1 }\n!s { x = 5 }\na = $(s.x)\n"], "env": [], "diff": 0, "kind": "var"},
            {"m": "a = 0\n", "s": ["!s { x = 5 }\na = $(s.x)\n"], "env": [], "diff": 0, "kind": "var"},
            {"m": "a = 0\n", "s": ["s.t.z = 1\n!s.t { z = 5 }\na = $(.s.t.z)\n"], "env": [], "diff": 0, "kind": "var"},
            {"m": "p { a = 0 }\n", "s": ["s { x = 1 }\np { !s { x = 5 }\n a = $(s.x) }\n"], "env": [], "diff": 0, "kind": "var"},
            {"m": "s { a = 1 }\n", "s": ["!s { y = 5 }\ns { y = 6\n !y = 7\n a = $y $(s.y) }\n"], "env": [], "diff": 0, "kind": "var"},
            # the worked example of Proofs/FetchExamples.v
            {"m": "a = 1\ns\n  .multiple = True\n{\n  b = x\n}\n!d = 0\n",
             "s": ["a = 2\ns { b = y }\ns { b = x }\nzz = 1\nd = 7\n"], "env": [], "diff": 0, "kind": "plain"},
            # nested multiples (F7 territory: the model must follow the implementation)
            {"m": "s\n  .multiple = True\n{\n  d = yes\n    .type = bool\n    .multiple = True\n}\n", "s": ["s { d = no }\n"],
             "env": [], "diff": 0, "kind": "plain"},
            {"m": "s\n  .multiple = True\n  .optional = False\n{\n  d = yes\n    .type = bool\n    .multiple = True\n  d = no\n    .type = bool\n    .multiple = True\n}\n",
             "s": ["s { d = no\n d = yes }\ns.d = 1\n", "s { d = no }\n"], "env": [], "diff": 0, "kind": "plain"},
            # deprecated: unchanged (omitted), changed (present)
            {"m": "a = 1\n  .deprecated = True\nb = 2\n", "s": ["a = 1\n"], "env": [], "diff": 0, "kind": "plain"},
            {"m": "a = 1\n  .deprecated = True\nb = 2\n", "s": ["a = 3\n", "a = 1\n"], "env": [], "diff": 0, "kind": "plain"},
            # duplicate scope names: both yielded; duplicate definition: refused
            {"m": "s { a = 1 }\ns { b = 2 }\n", "s": ["s.a = 3\ns.b = 4\n"], "env": [], "diff": 0, "kind": "plain"},
            {"m": "a = 1\na = 2\n", "s": [], "env": [], "diff": 0, "kind": "plain"},
            # clashes
            {"m": "s { a = 1 }\n", "s": ["s = 3\n"], "env": [], "diff": 0, "kind": "plain"},
            {"m": "a = 1\n", "s": ["a { b = 3 }\n"], "env": [], "diff": 0, "kind": "plain"},
            # diff mode
            {"m": "a = 1\n  .type = int\ns\n  .multiple = True\n{\n  b = x\n}\n", "s": ["a = 1\ns { b = y }\ns { b = x }\n"],
             "env": [], "diff": 1, "kind": "plain"},
        ]

    def cases(self, rng, tier):
        n = 3000 if tier == "quick" else 30000
        for i in range(n):
            c = fc.gen_case(rng, floats=(i % 12 == 11), profile="shape", variables=(rng.random() < 0.2))
            if i % 5 == 4:
                c["diff"] = 1
            yield c

    # -- property on the implementation
    def in_domain(self, case):
        return True

    def prop(self, case, obs):
        if not isinstance(obs, list) or len(obs) < 2 or not isinstance(obs[0], list):
            return None
        o0, o1 = obs[:2]
        if o0[0] == "ok" and not case.get("diff"):
            mt = canon(objs_sx(self.fp.parse(input_string=case["m"])))
            why = shape_objs(mt, o0[1])
            if why is not None:
                return "shape: " + why
        # step 3: the fetch result of step 2 used as the master ("working = master.fetch()"); for masters with unique sibling
        # names the result must have the master's structure as well (others: compared with the model only)
        if (len(obs) >= 4 and isinstance(obs[3], list) and obs[3][0] == "ok" and not case.get("diff")
                and not self._dup_master(case["m"])):
            why = shape_objs(canon(objs_sx(self.fp.parse(input_string=case["m"]))), obs[3][1])
            if why is not None:
                return "shape (master = master.fetch()): " + why
        if o1 != o0:
            return "srcdis: with the disabled source objects removed the fetch gives %s instead of %s" % (
                json.dumps(o1)[:300], json.dumps(o0)[:300])
        return None

    def neighbours(self, case, rng):
        yield from self.shrink(case)
        for _ in range(60):
            c = dict(case)
            c["s"] = list(case["s"]) + [rng.choice(case["s"])] if case["s"] else []
            yield c


def match_finding(finding, failure):
    return False


SPEC = {
    "clusters": ["Fetch"],
    "streams": [FetchShape],
    "rule": "seeded grammar masters (names from a 7-name pool, unique or deliberately duplicated siblings, every non-float built-in "
            "type incl. untyped, int/ints with bounds and sizes, choice single/multi; .multiple/.optional in all combinations incl. "
            "multiples nested in multiple scopes and further master occurrences; .deprecated; disabled objects; expert levels; help; "
            "depth <= 3; no alias; one case in twelve with float/floats types) x 0-4 sources generated from the master's paths "
            "(hits with values valid / invalid for the type, repeated, misspelt, wrongly nested, scope/definition clashes, unknown "
            "scopes, empty scope instances, disabled definitions and scopes, dotted / nested / merged-block spelling, $variables with "
            "definitions or environment in a fifth of the cases, incl. dotted / root-anchored references whose candidates are enabled and disabled scopes (brace and dotted-name style) and definitions placed before the reference, alone or shadowing, top level and nested); one case in five with diff=True; 2 fetch runs per case; distinct = distinct "
            "(master text, source texts, env, diff); non-trivial = at least one source",
    "trusted": fc.COMMON_TRUSTED,
    "modelled": "hand-written model coq/theories/Model/Fetch.v (+ Vars.v, Choice.v); canon (extract_format + as_str) and os.environ are "
                "oracles recorded from the implementation run; the parser is input; alias masters and skip_incompatible_objects=True "
                "are outside the model; object identity between master and sources is not modelled (sources are separate parses)",
    "assumptions": ["text restricted to code points < 256", "masters without .alias", "no custom converter types",
                    "sources are scopes parsed separately from the master (no shared objects)"],
    "match_finding": match_finding,
}
