"""C12 - $variables resolve lexically, backwards only, and never inside single quotes.

Streams
  ident      : tokens.is_standard_identifier vs Vars.var_ident (bounded-exhaustive small alphabet)
  fragments  : variable_substitution_proxy(word) vs Vars.fragments_of_word (bounded-exhaustive + random)
  documents  : grammar documents x environments; per definition d.resolve_variables() (plain and
               diff_mode), root.resolve_variables(), root.get(path) vs Vars.resolve_id /
               resolve_objs / get_resolved on the implementation's own parse tree.
Property oracle (documents): an independent re-implementation of the property text
(nearest earlier definition searching outward, env fallback, passthrough, shape), evaluated on
the structured form of the case, never on primary ids.
"""
import contextlib
import itertools
import os
import re
import sys

import vlib
from vlib import Stream, exc_class, err_line, import_freephil, qcode, canon

QUOTES = {"n": None, "1": "'", "2": '"', "s": "'''", "d": '"""'}
QTEXT = {"n": "", "1": "'", "2": '"', "s": "'''", "d": '"""'}

KINDS = [
    ("Syntax error: $ must be followed", "VarDollarEnd"),
    ('Syntax error: missing ")"', "VarMissingParen"),
    ("Syntax error: improper variable name", "VarImproperName"),
    ("Not a definition", "NotADefinition"),
    ("Undefined variable", "UndefinedVariable"),
]

# No open finding.  Two former findings are repaired and their witnesses are must-pass corpus cases:
#   "disabled objects supply variables"            repaired in /repo af676a9 (the oracle treats
#                                                  disabled objects as invisible);
#   C12-later-dotted-scope-visible                 repaired in /repo 2398dd1: the implicit prefix scopes
#     of a dotted name now carry the primary id of the object they lead to, so the prefix scope of a
#     LATER dotted definition is cut off by lexical_get like every other later object (the oracle
#     reads the property text without exception: a wrapper of a later definition is later).


def err_obs(e):
    msg = str(e)
    cls = exc_class(e)
    kind = ""
    if cls in ("RuntimeError", "Sorry"):
        kind = "other"
        for pre, k in KINDS:
            if msg.startswith(pre):
                kind = k
                break
        return ["err", cls, kind, str(err_line(msg))]
    return ["err", cls, "", "0"]


def model_res(reply, f=lambda x: x):
    if reply[0] == "ok":
        return ["ok", f(reply[1])]
    if reply[0] == "uerr":
        return ["err", "RuntimeError", reply[1], reply[3]]
    if reply[0] == "crash":
        return ["err", "other:" + reply[1], "", "0"]
    return ["bad", reply]


def words_obs(ws):
    return [[w.value, qcode(w.quote_token), str(w.line_number or 0)] for w in ws]


# ----------------------------------------------------------------------------- identifiers
class Ident(Stream):
    name = "ident"
    cluster = "Vars"
    ALPHA = ["a", "Z", "_", ".", "1", "-", " "]

    def __init__(self, ctx):
        super().__init__(ctx)
        import_freephil()
        from freephil import tokens
        self.tokens = tokens

    def cases(self, rng, tier):
        n = 5 if tier == "quick" else 6
        for k in range(n + 1):
            for t in itertools.product(self.ALPHA, repeat=k):
                yield "".join(t)
        for i in range(300 if tier == "quick" else 5000):
            yield "".join(chr(rng.randrange(256)) if rng.random() < 0.2 else rng.choice(self.ALPHA)
                          for _ in range(rng.randint(1, 12)))

    def impl(self, case):
        return "1" if self.tokens.is_standard_identifier(case) else "0"

    def requests(self, case, o):
        return [("ident", case)]

    def model(self, case, replies, o):
        return replies[0]

    def key(self, case, o):
        return case or None

    def tag(self, case, o):
        return "ident" if o == "1" else "not"


# ----------------------------------------------------------------------------- fragments
FR_ALPHA = ["$", "(", ")", ".", "\\", "a", "B", "_", "1", " ", "-"]


class Fragments(Stream):
    name = "fragments"
    cluster = "Vars"

    def __init__(self, ctx):
        super().__init__(ctx)
        self.fp = import_freephil()
        from freephil import tokenizer, common
        self.tk = tokenizer
        self.common = common

    def corpus(self):
        return [["n", "$a.b"], ["n", "\\$a"], ["2", "$a"], ["n", "x\\\\$a"], ["n", "$(.a.b)"], ["n", "$(a..b)"],
                ["n", "$"], ["n", "$(a"], ["n", "$(1a)"], ["n", "$a$"], ["n", "$a\\$b"], ["n", ""], ["n", "$(a)("],
                ["n", "$a\\"], ["n", "$($a)"], ["n", "$(.)"]]

    def cases(self, rng, tier):
        n = 4 if tier == "quick" else 5
        for k in range(n + 1):
            for t in itertools.product(FR_ALPHA, repeat=k):
                s = "".join(t)
                if "$" in s or k <= 2:
                    yield ["n", s]
                    if k <= 3:
                        yield ["2", s]
        for i in range(3000 if tier == "quick" else 40000):
            m = rng.randint(5, 14)
            if i % 5 == 0:
                s = "".join(chr(rng.randrange(256)) if rng.random() < 0.3 else rng.choice(FR_ALPHA) for _ in range(m))
            else:
                s = "".join(rng.choice(FR_ALPHA + ["$", "a", "a", "."]) for _ in range(m))
            yield [rng.choice("nn12sd"), s]

    def impl(self, case):
        q, s = case
        w = self.tk.word(value=s, quote_token=QUOTES[q], line_number=7)
        try:
            p = self.common.variable_substitution_proxy(w)
        except Exception as e:  # noqa
            return err_obs(e)
        return ["ok", ["1" if p.force_string else "0", "1" if p.have_variables else "0",
                       [["1" if f.is_variable else "0", f.value] for f in p.fragments]]]

    def requests(self, case, o):
        q, s = case
        return [("fragments", [s, q, 7])]

    def model(self, case, replies, o):
        return model_res(replies[0])

    def prop(self, case, o):
        # passthrough half of the property at this level: no "$" => no variables, and the literal is the text
        q, s = case
        if "$" not in s:
            want = ["ok", ["0" if q == "n" else "1", "0", [["0", s]] if s else []]]
            if o != want:
                return "word without $ is not one literal fragment: %r" % (o,)
        return None

    def key(self, case, o):
        return tuple(case) if "$" in case[1] else None

    def tag(self, case, o):
        if o[0] == "err":
            return "err:" + o[2]
        nv = sum(1 for f in o[1][2] if f[0] == "1")
        return "vars%d%s" % (min(nv, 3), "+force" if o[1][0] == "1" else "")

    def shrink(self, case):
        q, s = case
        for i in range(len(s)):
            yield [q, s[:i] + s[i + 1:]]


# ----------------------------------------------------------------------------- documents
NAMES = ["a", "b", "c", "s", "t"]
SCOPES = ["s", "t"]
# a second pool in which names are proper prefixes of one another (scope s beside a reference $(st.x), run / runes)
PREFIX_NAMES = ["s", "st", "x", "sx", "run", "runes"]
PREFIX_SCOPES = ["s", "st", "run", "runes"]
_POOL = {"names": NAMES, "scopes": SCOPES}


def use_pool(prefix_family):
    _POOL["names"] = PREFIX_NAMES if prefix_family else NAMES
    _POOL["scopes"] = PREFIX_SCOPES if prefix_family else SCOPES


def pnames():
    return _POOL["names"]


def pscopes():
    return _POOL["scopes"]


def render_word(w):
    v, q = w
    if q == "n":
        return v
    qc = QTEXT[q][0]     # tokenizer.quote_python_str
    return QTEXT[q] + v.replace("\\", "\\\\").replace(qc, "\\" + qc) + QTEXT[q]


def render(items, ind=""):
    out = []
    for it in items:
        pre = "!" if it[2] else ""
        if it[0] == "d":
            # optional 5th element 1: every further word on a line of its own (backslash continuation)
            sep = " \\\n" + ind + "    " if len(it) > 4 and it[4] else " "
            out.append("%s%s%s = %s\n" % (ind, pre, it[1], sep.join(render_word(w) for w in it[3])))
        else:
            out.append("%s%s%s {\n" % (ind, pre, it[1]))
            out.append(render(it[3], ind + "  "))
            out.append("%s}\n" % ind)
    return "".join(out)


@contextlib.contextmanager
def recursion_limit(n):
    """Runaway recursion (a broken stop_id test) must fail fast, not after main.py's 10000 frames."""
    old = sys.getrecursionlimit()
    sys.setrecursionlimit(n)
    try:
        yield
    finally:
        sys.setrecursionlimit(old)


@contextlib.contextmanager
def patched_environ(env, universe):
    """Temporarily make os.environ agree with [env] on every name of [universe]."""
    saved = {}
    names = set(universe) | set(env)
    for k in names:
        saved[k] = os.environ.get(k)
    try:
        for k in names:
            if k in env:
                os.environ[k] = env[k]
            elif k in os.environ:
                del os.environ[k]
        yield
    finally:
        for k, v in saved.items():
            if v is None:
                os.environ.pop(k, None)
            else:
                os.environ[k] = v


_VAR_RE = re.compile(r"\$\(([^)]*)\)|\$([A-Za-z_][A-Za-z_0-9]*)")


def var_names(items):
    """every name that may be looked up in the environment for this document"""
    out = set()
    for it in items:
        if it[0] == "d":
            for v, q in it[3]:
                for m in _VAR_RE.finditer(v):
                    out.add(m.group(1) if m.group(1) is not None else m.group(2))
        else:
            out |= var_names(it[3])
    return {n for n in out if n and "=" not in n and "\0" not in n}


# ---- generator
def gen_path(rng):
    r = rng.random()
    if r < 0.55:
        return rng.choice(pnames())
    if r < 0.85:
        return rng.choice(pscopes()) + "." + rng.choice(pnames())
    return rng.choice(pscopes()) + "." + rng.choice(pscopes()) + "." + rng.choice(pnames())


def gen_ref(rng):
    p = gen_path(rng)
    return "." + p if rng.random() < 0.2 else p


def gen_word(rng, malformed):
    r = rng.random()
    N, M = gen_ref(rng), gen_ref(rng)
    if malformed and r < 0.15:
        v = rng.choice(["$", "x$", "$(" + N, "$(1bad)", "$()", "$(%s..%s)" % (N, M), "$." + N, "$1", "$$" + N,
                        "$(%s.)" % N, "$( %s)" % N, "$(%s" % N + "$", "$-", "$(.)"])
    elif r < 0.30:
        v = rng.choice(["1", "x", "v w", "0", "x.y", "-"])
    elif r < 0.50:
        v = "$(" + N + ")"
    elif r < 0.65:
        v = "$" + N.lstrip(".")          # bare form; a dotted N gives variable + literal ".x"
    else:
        v = rng.choice([
            "pre$(%s)post" % N, "$(%s)$(%s)" % (N, M), "$%s$%s" % (N.lstrip("."), M.lstrip(".")), "x$" + N.lstrip("."),
            "$%s-1" % N.lstrip("."), "\\$" + N.lstrip("."), "\\$%s$(%s)" % (N.lstrip("."), M), "p $(%s) q" % N,
            "$(%s) $(%s)" % (N, M), "x\\\\$" + N.lstrip("."), "$(%s).%s" % (N, rng.choice(pnames())), "$(%s)(" % N])
    q = rng.choice("nnnnnn2221sd")
    if q == "n" and (" " in v or v == ""):
        q = "2"
    return [v, q]


def gen_items(rng, depth, malformed, budget):
    items = []
    n = rng.randint(1, 4 if depth == 0 else 3)
    for _ in range(n):
        if budget[0] <= 0:
            break
        budget[0] -= 1
        dis = 1 if rng.random() < 0.12 else 0
        name = rng.choice(pnames())
        r = rng.random()
        if r < 0.12:
            name = rng.choice(pscopes()) + "." + name
        elif r < 0.16:
            name = rng.choice(pscopes()) + "." + rng.choice(pscopes()) + "." + name
        if depth < 3 and rng.random() < 0.30:
            nm = name if rng.random() < 0.8 else rng.choice(pscopes())
            items.append(["s", nm, dis, gen_items(rng, depth + 1, malformed, budget)])
        else:
            nw = 1 if rng.random() < 0.75 else rng.randint(2, 3)
            it = ["d", name, dis, [gen_word(rng, malformed) for _ in range(nw)]]
            if nw > 1 and rng.random() < 0.4:
                it.append(1)
            items.append(it)
    return items


ENV_VALUES = ["E", "e v", "", "$a", "'q'", "1"]


def gen_env(rng, items):
    if rng.random() < 0.4:
        return []
    names = sorted(var_names(items)) or ["a"]
    env = {}
    for _ in range(rng.randint(1, 3)):
        k = rng.choice(names) if rng.random() < 0.8 else rng.choice(NAMES)
        env[k] = rng.choice(ENV_VALUES)
    return sorted([k, v] for k, v in env.items())


SMALL_WORDS = [["1", "n"], ["$a", "n"], ["$b", "n"], ["$a", "2"], ["$a", "1"], ["x$(b)", "n"]]


def exhaustive_docs(tier):
    # three definitions in a row: earlier / self / later references over two names
    ws = SMALL_WORDS if tier != "quick" else SMALL_WORDS[:5]
    for names in itertools.product("ab", repeat=3):
        for words in itertools.product(ws, repeat=3):
            yield [["d", names[i], 0, [list(words[i])]] for i in range(3)]
    # shadowing in nested scopes: the same name before, inside (before and after the reference) and after
    refs = [["$a", "n"], ["$(.a)", "n"], ["$(s.a)", "n"], ["$(.s.a)", "n"], ["$(t.a)", "n"], ["$(s.t.a)", "n"], ["$s", "n"],
            ["$(s.t)", "n"]]
    for mask in range(64):
        for ref in refs:
            pre = [["d", "a", 0, [["1", "n"]]]] if mask & 1 else []
            in_s_before = [["d", "a", 0, [["2", "n"]]]] if mask & 2 else []
            in_t_before = [["d", "a", 0, [["3", "n"]]]] if mask & 4 else []
            in_t_after = [["d", "a", 0, [["4", "n"]]]] if mask & 8 else []
            in_s_after = [["d", "a", 0, [["5", "n"]]]] if mask & 16 else []
            post = [["d", "s.a", 0, [["6", "n"]]]] if mask & 32 else []
            t = ["s", "t", 0, in_t_before + [["d", "b", 0, [ref]]] + in_t_after]
            yield pre + [["s", "s", 0, in_s_before + [t] + in_s_after]] + post


class Documents(Stream):
    name = "documents"
    cluster = "Vars"
    impl_timeout = 10.0

    def __init__(self, ctx):
        super().__init__(ctx)
        self.fp = import_freephil()

    # -- cases
    def corpus(self):
        d = lambda n, *ws: ["d", n, 0, [list(w) for w in ws]]
        return [
            # former witness of the repaired defect: a disabled earlier definition must NOT supply $y
            {"doc": [["d", "y", 1, [["1", "n"]]], d("z", ("$y", "n"))], "env": []},
            {"doc": [["d", "y", 1, [["1", "n"]]], d("z", ("$y", "n"))], "env": [["y", "E"]]},
            {"doc": [d("y", ("0", "n")), ["s", "s", 1, [d("y", ("1", "n"))]], ["d", "y", 1, [["2", "n"]]],
                     d("z", ("$y", "n"), ("$(s.y)", "n"))], "env": []},
            # former witness of C12-later-dotted-scope-visible (repaired in /repo 2398dd1): a LATER dotted
            # definition must not turn an earlier reference into 'Not a definition'; these must PASS
            {"doc": [["s", "t", 0, [d("a", ("$VERIFX", "n"))]], d("VERIFX.b", ("1", "n"))], "env": [["VERIFX", "E"]]},
            {"doc": [["s", "t", 0, [d("a", ("$VERIFX", "n"))]], d("VERIFX.b", ("1", "n"))], "env": []},
            {"doc": [["s", "t", 0, [d("a", ("$VERIFX", "n"))]]], "env": [["VERIFX", "E"]]},
            # ... also inside the enclosing scope, behind a later dotted SCOPE, with a deeper dotted name,
            # and for a definition that refers to its own prefix (s.a = $s sees only an EARLIER s)
            {"doc": [["s", "t", 0, [d("a", ("$VERIFX", "n")), d("VERIFX.b", ("1", "n"))]]], "env": [["VERIFX", "E"]]},
            {"doc": [["s", "t", 0, [d("a", ("$VERIFX", "n"))]], ["s", "VERIFX.b", 0, [d("c", ("1", "n"))]]], "env": []},
            {"doc": [d("a", ("$(VERIFX.b)", "n"), ("$VERIFX", "n")), d("VERIFX.b.c", ("1", "n"))], "env": [["VERIFX", "E"], ["VERIFX.b", "F"]]},
            {"doc": [d("s.a", ("$s", "n"))], "env": [["s", "E"]]},
            {"doc": [d("s.a", ("$s", "n"))], "env": []},
            {"doc": [d("s.a", ("1", "n")), d("s.a", ("$(s.a)", "n"), ("$s", "n"))], "env": []},
            # an EARLIER dotted definition is still found through its prefix scope
            {"doc": [d("VERIFX.b", ("1", "n")), ["s", "t", 0, [d("a", ("$(VERIFX.b)", "n")), d("c", ("$VERIFX", "n"))]]], "env": [["VERIFX", "E"]]},
            {"doc": [d("a", ("1", "n")), d("a", ("$a", "n")), d("a", ("$a", "n"), ("2", "n"))], "env": []},
            {"doc": [d("a", ("$a", "n"))], "env": [["a", "E"]]},
            {"doc": [d("a", ("$a", "n"))], "env": []},
            {"doc": [d("a", ("1", "n"), ("2", "n"), ("3", "1")), d("b", ("$a", "n")), d("c", ("$a", "2")), d("b", ("x$a", "n"))],
             "env": []},
            {"doc": [d("b", ("$a", "1"), ("$a", "2"), ("x$(a)y", "n"), ("\\$a", "n"), ("$a.b", "n"))], "env": [["a", "e v"]]},
            {"doc": [d("a", ("1", "n")), ["s", "s", 0, [d("a", ("2", "n")), ["s", "t", 0, [
                d("b", ("$a", "n"), ("$(.a)", "n"), ("$(s.a)", "n"), ("$(.s.a)", "n"))]], d("a", ("3", "n"))]]], "env": []},
            {"doc": [["s", "s", 0, [d("a", ("1", "n"))]], d("b", ("$s", "n"))], "env": []},
            {"doc": [d("b", ("$", "n"))], "env": []},
            {"doc": [d("b", ("$(a", "n"))], "env": []},
            {"doc": [d("b", ("$(1bad)", "n"))], "env": []},
            {"doc": [d("b", ("$a", "s")), d("c", ("$a", "d"))], "env": [["a", "$b"]]},
            {"doc": [d("s.t.a", ("1", "n")), ["s", "s.t", 0, [d("b", ("$a", "n"), ("$(t.a)", "n"), ("$(s.t.a)", "n"))]]], "env": []},
            # diff mode: an unresolved reference in front of text that comes from a resolved one keeps its parentheses
            {"doc": [d("u", ("abc", "n")), d("e", ("", "d")), d("x", ("$v$u", "n"), ("$(v)$(e)$u", "d"), ("$v$(e).$u", "n"), ("$(v.w)$u", "n"))], "env": []},
            # a scope whose name is a proper prefix of the first component of a reference is not that component
            {"doc": [d("x", ("0", "n")), ["s", "st", 0, [d("x", ("1", "n"))]], ["s", "s", 0, [d("x", ("2", "n")), d("q", ("$(st.x)", "n"), ("$(sx.x)", "n"))]]], "env": []},
            {"doc": [d("x", ("0", "n")), ["s", "run", 0, [d("s.x", ("1", "n")), d("q", ("$(runes.x)", "n"))]]], "env": []},
        ]

    def cases(self, rng, tier):
        for doc in exhaustive_docs(tier):
            yield {"doc": doc, "env": []}
            yield {"doc": doc, "env": [["a", "E"]]}
        n = 2500 if tier == "quick" else 40000
        for i in range(n):
            malformed = i % 4 == 0
            doc = gen_items(rng, 0, malformed, [rng.randint(2, 9)])
            yield {"doc": doc, "env": gen_env(rng, doc)}
        # names that are proper prefixes of one another
        use_pool(True)
        try:
            for i in range(800 if tier == "quick" else 12000):
                doc = gen_items(rng, 0, False, [rng.randint(3, 9)])
                yield {"doc": doc, "env": gen_env(rng, doc)}
        finally:
            use_pool(False)

    # -- implementation
    def impl(self, case):
        text = render(case["doc"])
        env = dict(case["env"])
        try:
            tree = self.fp.parse(text)
        except Exception as e:  # noqa
            return ["parse-error", exc_class(e)]
        defs = []
        paths = []

        def walk(sc, active):
            for o in sc.objects:
                act = active and not o.is_disabled
                p = o.full_path()
                if act and p not in paths:
                    paths.append(p)
                if o.is_definition:
                    defs.append((o, act))
                else:
                    walk(o, act)

        walk(tree, True)
        out_defs = []
        with patched_environ(env, var_names(case["doc"])), recursion_limit(1000):
            for d, act in defs:
                res = []
                for diff in (False, True):
                    try:
                        r = d.resolve_variables(diff_mode=diff)
                        res.append(["ok", words_obs(r.words)])
                    except vlib.Timeout:
                        raise
                    except Exception as e:  # noqa
                        res.append(err_obs(e))
                out_defs.append([str(d.primary_id or 0), "1" if act else "0", res[0], res[1]])
            try:
                whole = ["ok", flat(tree.resolve_variables())]
            except vlib.Timeout:
                raise
            except Exception as e:  # noqa
                whole = err_obs(e)
            gets = []
            for p in paths[:6]:
                try:
                    gets.append([p, ["ok", flat(tree.get(p))]])
                except vlib.Timeout:
                    raise
                except Exception as e:  # noqa
                    gets.append([p, err_obs(e)])
        return ["parsed", canon(vlib.objs_sx(tree)), out_defs, whole, gets]

    # -- model
    def requests(self, case, o):
        if o[0] != "parsed":
            return []
        tree = o[1]
        env = case["env"]
        ids = [d[0] for d in o[2]]
        reqs = [("resolve_ids", [tree, env, ids]), ("resolve_all", [tree, env])]
        for p, _ in o[4]:
            reqs.append(("get", [tree, env, p]))
        return reqs

    def model(self, case, replies, o):
        if o[0] != "parsed":
            return o
        r0 = replies[0]
        if r0 == ["badinput"] or r0[0] != "1":
            # the parse tree does not decode or is not in document order: outside the model's assumptions
            return "UNMODELLED"
        defs = []
        for d, pair in zip(o[2], r0[1]):
            defs.append([d[0], d[1], model_res(pair[0]), model_res(pair[1])])
        whole = model_res(replies[1])
        gets = [[p, model_res(r)] for (p, _), r in zip(o[4], replies[2:])]
        return ["parsed", o[1], defs, whole, gets]

    # -- the property's own statement
    def prop(self, case, o):
        if o[0] != "parsed":
            return None
        sp = Spec(case)
        if not sp.matches_tree(o[1]):
            return None  # the document did not parse into the structure the case describes (not this property)
        for node, d in zip(sp.defs, o[2]):
            want = sp.resolve(node)
            if want is None:
                continue  # touches a malformed reference: the property text does not say
            got = d[2]
            if got == want:
                continue
            return "definition %s (line %d): implementation %r, property text %r" % (node.path(), node.line, got, want)
        return None

    def in_domain(self, case):
        # every case: dotted names are covered without exception since /repo 2398dd1
        return True

    def key(self, case, o):
        if o[0] != "parsed":
            return None
        text = render(case["doc"])
        if "$" not in text:
            return None
        return text + repr(case["env"])

    def tag(self, case, o):
        if o[0] != "parsed":
            return "parse-error"
        kinds = set()
        for d in o[2]:
            kinds.add(d[2][2] if d[2][0] == "err" else "ok")
        return "+".join(sorted(kinds)) or "empty"

    def shrink(self, case):
        doc, env = case["doc"], case["env"]
        for i in range(len(env)):
            yield {"doc": doc, "env": env[:i] + env[i + 1:]}
        for d in shrink_items(doc):
            yield {"doc": d, "env": env}

    def neighbours(self, case, rng):
        yield from self.shrink(case)
        doc, env = case["doc"], case["env"]
        for _ in range(100):
            d2 = mutate_items(doc, rng)
            yield {"doc": d2, "env": env}
            yield {"doc": d2, "env": gen_env(rng, d2)}


def flat(scope):
    out = []
    for o in scope.objects:
        if o.is_definition:
            out.append([o.name, words_obs(o.words)])
        else:
            out.extend(flat(o))
    return out


def shrink_items(items):
    for i in range(len(items)):
        yield items[:i] + items[i + 1:]
    for i, it in enumerate(items):
        if it[0] == "s":
            yield items[:i] + it[3] + items[i + 1:]
            for sub in shrink_items(it[3]):
                yield items[:i] + [[it[0], it[1], it[2], sub]] + items[i + 1:]
        else:
            ws = it[3]
            if len(ws) > 1:
                for j in range(len(ws)):
                    yield items[:i] + [[it[0], it[1], it[2], ws[:j] + ws[j + 1:]] + it[4:]] + items[i + 1:]
                if len(it) > 4 and it[4]:
                    yield items[:i] + [it[:4]] + items[i + 1:]
        if it[2]:
            yield items[:i] + [[it[0], it[1], 0, it[3]]] + items[i + 1:]
        if "." in it[1]:
            yield items[:i] + [[it[0], it[1].split(".")[-1], it[2], it[3]]] + items[i + 1:]


def mutate_items(items, rng):
    import copy
    items = copy.deepcopy(items)
    flatl = []

    def walk(l):
        for it in l:
            flatl.append((l, it))
            if it[0] == "s":
                walk(it[3])

    walk(items)
    if not flatl:
        return items
    l, it = rng.choice(flatl)
    r = rng.random()
    if r < 0.4 and it[0] == "d":
        it[3][rng.randrange(len(it[3]))] = gen_word(rng, False)
    elif r < 0.6:
        it[1] = rng.choice(NAMES)
    elif r < 0.7:
        it[2] = 1 - it[2]
    else:
        l.insert(rng.randrange(len(l) + 1), ["d", rng.choice(NAMES), 0, [gen_word(rng, False)]])
    return items


# ----------------------------------------------------------------------------- the property text, executable
class Node:
    __slots__ = ["kind", "name", "disabled", "kids", "words", "line", "pos", "parent", "shell"]

    def path(self):
        p, n = [], self
        while n is not None and n.name != "":
            p.append(n.name)
            n = n.parent
        return ".".join(reversed(p))


_FRAG_RE = re.compile(r"\\\$|\$\(([^)]*)\)|\$([A-Za-z_][A-Za-z_0-9]*)|(\$)|([^$\\]+|\\)", re.S)
_IDENT_RE = re.compile(r"^\.?[A-Za-z_][A-Za-z_0-9]*(\.[A-Za-z_][A-Za-z_0-9]*)*$")


class Spec:
    """Independent reading of the property text over the structured document of a case.
    Positions are document order (definition = its line); a dotted name a.b.x = v is x inside b
    inside a, those wrapper scopes sitting where the definition sits."""

    def __init__(self, case):
        self.env = dict(case["env"])
        self.line = 0
        self.pos = 0
        self.defs = []
        self.root = self._scope("", 0, None, False)
        self.root.pos = 0
        self._build(case["doc"], self.root)

    def _scope(self, name, dis, parent, shell):
        n = Node()
        n.kind, n.name, n.disabled, n.kids, n.words, n.parent, n.shell = "s", name, bool(dis), [], None, parent, shell
        n.line = 0
        n.pos = None
        return n

    def _wrap(self, name, parent, pos):
        comps = name.split(".")
        for c in comps[:-1]:
            sh = self._scope(c, 0, parent, True)
            sh.pos = pos
            parent.kids.append(sh)
            parent = sh
        return comps[-1], parent

    def _build(self, items, parent):
        for it in items:
            self.line += 1
            self.pos += 1
            pos = self.pos
            last, holder = self._wrap(it[1], parent, pos)
            if it[0] == "d":
                n = Node()
                n.kind, n.name, n.disabled, n.kids, n.parent, n.shell = "d", last, bool(it[2]), [], holder, False
                multi = len(it) > 4 and it[4]
                n.line, n.pos = self.line, pos
                n.words = [(v, q, self.line + (i if multi else 0)) for i, (v, q) in enumerate(it[3])]
                if multi:
                    self.line += len(it[3]) - 1
                holder.kids.append(n)
                self.defs.append(n)
            else:
                n = self._scope(last, it[2], holder, False)
                n.line, n.pos = self.line, pos
                holder.kids.append(n)
                self._build(it[3], n)
                self.line += 1  # closing brace

    # the case's structure equals the implementation's parse tree (names, nesting, words, lines)
    def matches_tree(self, tree):
        def conv(n):
            if n.kind == "d":
                return ["d", n.name, "1" if n.disabled else "0", [[v, q, str(l)] for v, q, l in n.words]]
            return ["s", n.name, "1" if n.disabled else "0", [conv(k) for k in n.kids]]

        def conv_t(t):
            kind, h, body, _ = t
            if kind == "def":
                return ["d", h[0], h[1], body]
            return ["s", h[0], h[1], [conv_t(k) for k in body]]

        return [conv(k) for k in self.root.kids] == [conv_t(t) for t in tree]

    # -- lookup: all objects named by [comps] below scope [sc] that sit before position p
    def _matches(self, sc, comps, p):
        out = []
        for k in sc.kids:
            if k.pos >= p:
                continue       # later in the document; a wrapper of a later definition is later, too
            if k.disabled:
                continue       # a disabled object (and everything inside a disabled scope) is commented out
            if k.name != comps[0]:
                continue
            if len(comps) == 1:
                out.append(k)
            elif k.kind == "s":
                out.extend(self._matches(k, comps[1:], p))
        return out

    def lookup(self, name, node):
        anchored = name.startswith(".")
        comps = (name[1:] if anchored else name).split(".")
        sc = node.parent
        chain = []
        while sc is not None:
            chain.append(sc)
            sc = sc.parent
        if anchored:
            chain = chain[-1:]
        for sc in chain:
            m = self._matches(sc, comps, node.pos)
            if m:
                # nearest = latest in document order; among wrappers of one definition the outermost match
                best = max(m, key=lambda k: k.pos)
                return best
        return None

    def fragments(self, v):
        out = []
        i = 0
        while i < len(v):
            m = _FRAG_RE.match(v, i)
            if m is None or m.group(3) is not None:
                return None
            if m.group(1) is not None:
                if not _IDENT_RE.match(m.group(1)):
                    return None
                out.append(("v", m.group(1)))
            elif m.group(2) is not None:
                out.append(("v", m.group(2)))
            else:
                if out and out[-1][0] == "l":
                    out[-1] = ("l", out[-1][1] + m.group(0))
                else:
                    out.append(("l", m.group(0)))
            i = m.end()
        return out

    def resolve(self, node, depth=0):
        """-> ["ok", words] | ["err", "RuntimeError", kind, line] | None (text does not say)"""
        if depth > 200:
            return ["nontermination"]
        new = []
        for v, q, line in node.words:
            if q == "1" or "$" not in v:
                new.append([v, q, str(line)])
                continue
            frs = self.fragments(v)
            if frs is None:
                return None
            if not any(k == "v" for k, _ in frs):
                new.append([v, q, str(line)])
                continue
            sole = q == "n" and len(frs) == 1
            text = ""
            for k, val in frs:
                if k == "l":
                    text += val
                    continue
                if val.startswith(".") and val in self.env:
                    return None
                src = self.lookup(val, node)
                if src is not None:
                    if src.kind != "d":
                        return ["err", "RuntimeError", "NotADefinition", str(line)]
                    r = self.resolve(src, depth + 1)
                    if r is None or r[0] != "ok":
                        return r
                    ws = r[1]
                elif val in self.env:
                    ws = [[self.env[val], "2", "0"]]
                else:
                    return ["err", "RuntimeError", "UndefinedVariable", str(line)]
                if sole:
                    new.extend(ws)
                else:
                    text += " ".join(w[0] for w in ws)
            if not sole:
                new.append([text, "2", "0"])
        return ["ok", new]


class IncludeNames(Stream):
    """The observation point "include file names containing variables": after variable resolution the file name is taken
    literally - a '$NAME' that survived (single-quoted text) is part of the name, not a reference to the environment; an
    unquoted $name with an earlier definition takes that definition.  Oracle only (real files in a temporary directory)."""
    name = "include_names"
    cluster = "Vars"
    CASES = ["include file '@D@/$VERIFINC.params'\n",
             "f = '@D@/$VERIFINC.params'\ninclude file $f\n",
             "s {\n  include file '@D@/$VERIFINC.params'\n}\n",
             "VERIFINC = lit2\ninclude file @D@/$VERIFINC.params\n",
             "include file \"@D@/$(VERIFINC).params\"\n",
             "include file '@D@/~user.params'\n"]

    def __init__(self, ctx):
        super().__init__(ctx)
        self.fp = import_freephil()

    def corpus(self):
        return list(self.CASES)

    def cases(self, rng, tier):
        return []

    def impl(self, case):
        import shutil, tempfile
        d = tempfile.mkdtemp(prefix="c12inc_")
        old = os.environ.get("VERIFINC")
        try:
            for name, val in (("$VERIFINC.params", "literal_file"), ("other.params", "environment"), ("lit2.params", "earlier_definition"),
                              ("~user.params", "tilde_file")):
                with open(os.path.join(d, name), "w") as f:
                    f.write("a = %s\n" % val)
            os.environ["VERIFINC"] = "other"
            doc = case.replace("@D@", d)
            try:
                t = self.fp.parse(input_string=doc, process_includes=True)
                got = [o.words[0].value for o in t.all_definitions() for o in [o.object] if o.name == "a"]
            except RuntimeError as e:
                return ["err", str(e).replace(d, "@D@")[:160]]
            return ["ok", got]
        finally:
            if old is None:
                os.environ.pop("VERIFINC", None)
            else:
                os.environ["VERIFINC"] = old
            shutil.rmtree(d, ignore_errors=True)

    def requests(self, case, o):
        return []

    def model(self, case, replies, o):
        return o

    WANT = {0: ["literal_file"], 1: ["literal_file"], 2: ["literal_file"], 3: ["earlier_definition"], 4: ["environment"], 5: ["tilde_file"]}

    def prop(self, case, o):
        want = self.WANT[self.CASES.index(case)]
        if o != ["ok", want]:
            return "the include line %r loaded %r, expected the file holding %r" % (case, o, want)
        return None

    def tag(self, case, o):
        return o[0]


SPEC = {
    "clusters": ["Vars"],
    "streams": [Ident, Fragments, Documents, IncludeNames],
    "rule": "ident: all strings to length 5/6 over 7 classes + random; fragments: all words to length 4/5 over 11 classes "
            "(those containing $) x quoted/unquoted + random to length 14 incl. all 256 code points; documents: exhaustive "
            "three-definition documents over 2 names x 5-6 word forms, 64 shadowing masks x 8 reference forms, each x 2 "
            "environments, plus seeded grammar documents (depth <= 3, dotted names, disabled objects, all quote styles, "
            "malformed references in a quarter) x random environments; distinct = distinct (document text, environment) "
            "containing a $",
    "trusted": ["Modelled: tokens.is_standard_identifier, variable_substitution_proxy.__init__/get_new_words, scope.lexical_get, "
                "definition.resolve_variables (diff_mode too), scope.resolve_variables, scope.get/get_without_substitution "
                "(alias-free). Oracle: os.environ (association list in the request; implementation side patches os.environ "
                "for the names the document can look up and restores it). The parse tree (with primary ids) is taken from "
                "freephil.parse and handed to the model; the model checks doc_ordered on it in every case."],
    "modelled": "hand-written model coq/theories/Model/Vars.v; the tmp marks set on substitution sources are not modelled; "
                "freephil.parse is input to this check, not modelled here (doc_ordered is checked per case on the implementation's "
                "tree; for the parser MODEL it is proved: C12_parsed_documents_are_ordered)",
    "assumptions": ["text restricted to code points < 256", "parsed documents are doc_ordered (checked by the model on every case)",
                    "no .alias paths in scope.get"],
}
