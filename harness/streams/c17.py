"""C17 - operations are pure: inputs unchanged, results repeatable, copies faithful."""
import copy
import io
import contextlib
import json
import pickle

import parse_common as pc
import vlib
from vlib import Stream, import_freephil, objs_sx, obj_sx, canon, exc_class

MASTER_PARTS = [
    "a = 1\n  .type = int\n  .help = \"an int\"\n",
    "b = x y\n  .type = str\n",
    "flag = True\n  .type = bool\n",
    "c = *p q r\n  .type = choice\n",
    "cm = p *q *r\n  .type = choice(multi=True)\n  .optional = True\n",
    "n = 1 2 3\n  .type = ints(size_max=4)\n",
    "w = some words here\n",
    "ss = a \"b c\" d\n  .type = strings\n",
    "m = None\n  .type = str\n  .multiple = True\n",
    "s {\n  x = 3\n    .type = int(value_min=0)\n  y = None\n    .type = str\n  t {\n    z = no\n      .type = bool\n  }\n}\n",
    "ms\n  .multiple = True\n{\n  k = 0\n    .type = int\n  l = None\n    .type = strings\n}\n",
    "!off = 1\n  .type = int\n",
    "d.e.f = 2\n  .type = int\n  .expert_level = 2\n",
    "dep = 1\n  .type = int\n  .deprecated = True\n",
    "an = 2\n  .type = int(allow_none=False)\n",
    "fl = 0.5\n  .type = float(value_min=0, allow_none=False)\n",
    "pr = 1 2\n  .type = ints(size=2, allow_none_elements=True)\n",
    "fs = 1.5 2.5\n  .type = floats(size_max=3, value_max=10)\n",
    # a scope with a non-zero expert level holding parameters without a level of their own (they inherit it in the tie-break of
    # the argument interpreter), the same name at two depths
    "adv\n  .expert_level = 2\n{\n  k = 1\n    .type = int\n  sub {\n    k = 2\n      .type = int\n    z = no\n      .type = bool\n  }\n}\n",
]
SOURCE_PARTS = [
    "an = None\n", "fl = None\n", "pr = None 3\n", "fs = 1 2 3\n", "an = 7\n",
    "a = 5\n", "a = 2\na = 7\n", "b = hello world\n", "flag = no\n", "c = q\n", "c = *r\n", "cm = p+r\n", "cm = None\n", "n = 4 5\n", "n = [7,8,9]\n",
    "w = other words\n", "ss = x y\n", "m = one\nm = two\n", "m = one\n", "s.x = 9\n", "s { y = text\n t { z = yes } }\n", "s.t.z = True\n",
    "ms { k = 1 }\nms { k = 2\n l = a b }\n", "ms { k = 1 }\n", "unknown = 1\n", "s.unknown = 2\n", "!a = 99\n", "d.e.f = 5\n", "dep = 3\n",
    "b = $a\n", "w = pre$(a)post\n", "a = $missing\n", "a = notanint\n", "s = 1\n",
]
REG_TEXT = "d = 2\n  .type = length\nn = 3\n  .type = int\n"
ARGS = ["a=3", "x=4", "z=True", "s.x=1", "f=9", "k=5", "y=abc", "nomatch=1", "t.z=no", "flag=off", "c=r"]


def safe(f):
    """Run f; canonical outcome."""
    try:
        with contextlib.redirect_stdout(io.StringIO()):
            return ["ok", f()]
    except BaseException as e:  # noqa
        if isinstance(e, (KeyboardInterrupt, vlib.Timeout)):
            raise
        return ["err", exc_class(e)]


def dump_extract(o, depth=0):
    import freephil
    if isinstance(o, freephil.scope_extract):
        return ["scope", [[k, dump_extract(v, depth + 1)] for k, v in o.__dict__.items() if not (k.startswith("__") and k.endswith("__"))]]
    if isinstance(o, list):
        return ["list", [dump_extract(x, depth + 1) for x in o]]
    if o is None or o is freephil.Auto or isinstance(o, (bool, int, str)):
        return ["v", repr(o) if o is not freephil.Auto else "Auto"]
    if isinstance(o, float):
        return ["v", o.hex()]
    if hasattr(o, "value") and hasattr(o, "quote_token"):
        return ["w", o.value, str(o.quote_token)]
    return ["v", type(o).__name__]


class Monitor:
    """Records attribute writes to definition/scope/word objects that existed before the monitored call."""

    def __init__(self, fp):
        import freephil.common as C
        import freephil.tokenizer as T
        self.classes = [C.definition, C.scope, T.word]
        self.known = set()
        self.writes = []
        self.active = False

    def register(self, scope):
        stack = [scope]
        while stack:
            o = stack.pop()
            self.known.add(id(o))
            if getattr(o, "is_scope", False):
                stack.extend(o.objects)
            else:
                for w in getattr(o, "words", []) or []:
                    self.known.add(id(w))

    def __enter__(self):
        mon = self

        def mk(cls):
            def setter(obj, name, value):
                if mon.active and id(obj) in mon.known:
                    mon.writes.append((type(obj).__name__, name))
                object.__setattr__(obj, name, value)
            return setter
        for c in self.classes:
            c.__setattr__ = mk(c)
        return self

    def __exit__(self, *a):
        for c in self.classes:
            try:
                del c.__setattr__
            except AttributeError:
                pass


class Histories(Stream):
    name = "histories"
    cluster = "Parse"
    impl_timeout = 20.0

    def __init__(self, ctx):
        super().__init__(ctx)
        self.fp = import_freephil()
        self.req = {}

    def registries(self):
        if not hasattr(self, "_regs"):
            fp = self.fp
            from freephil import tokenizer

            def mk(k, factor):
                class conv:
                    phil_type = "length"

                    def __str__(self):
                        return self.phil_type

                    def from_words(self, words, master):
                        v = fp.str_from_words(words)
                        return v if (v is None or v is fp.Auto) else float(v) * factor

                    def as_words(self, python_object, master):
                        if python_object is None:
                            return [tokenizer.word(value="None")]
                        return [tokenizer.word(value="%.10g" % (python_object / factor))]
                conv.__name__ = "length_%d_converters" % k
                conv.__qualname__ = conv.__name__
                return conv
            self._regs = [fp.extended_converter_registry([mk(0, 1.0)]), fp.extended_converter_registry([mk(1, 1000.0)])]
            self.keep = []
        return self._regs

    def cases(self, rng, tier):
        n = 400 if tier == "quick" else 6000
        for _ in range(n):
            k = rng.randint(3, 8)
            master = "".join(rng.sample(MASTER_PARTS, k))
            nsrc = rng.randint(1, 3)
            sources = ["".join(rng.choice(SOURCE_PARTS) for _ in range(rng.randint(1, 4))) for _ in range(nsrc)]
            ops = []
            for _ in range(rng.randint(6, 18)):
                op = rng.choice(["fetch", "fetch", "fetch_track", "diff", "extract", "format", "clone", "show", "arg", "pickle", "deepcopy",
                                 "shallow_edit", "result_edit", "deep_edit", "resolve", "repeat", "repeat", "parse_reg", "include_scope", "fetch_other", "fetch_track", "index_reset", "fetch_skip"])
                ops.append([op, rng.randrange(1 << 30)])
            yield {"master": master, "sources": sources, "ops": ops}

    # ---- the implementation side: run the history, return the list of observations that must hold
    def impl(self, case):
        import random
        fp = self.fp
        mon = Monitor(fp)
        master = fp.parse(case["master"])
        sources = []
        for s in case["sources"]:
            try:
                sources.append(fp.parse(s))
            except Exception:  # noqa
                pass
        # a second master (every part of the pool) that shares the source objects with the first one
        master2 = fp.parse("".join(MASTER_PARTS))
        longlived = {"master": master, "master2": master2}
        for i, s in enumerate(sources):
            longlived["source%d" % i] = s
        for o in longlived.values():
            mon.register(o)

        def links(sc, prefix=""):
            # full_path() of every object (walks the parent links) next to its position path, and whether each child points at its parent
            out = []
            for o in sc.objects:
                here = prefix + o.name
                out.append([here, o.full_path(), o.primary_parent_scope is sc])
                if o.is_scope:
                    out.extend(links(o, here + "."))
            return out

        def snap():
            return {k: [v.as_str(attributes_level=3), json.dumps(canon(objs_sx(v))), json.dumps(links(v))] for k, v in longlived.items()}
        base = snap()
        problems = []
        done = []   # (description, thunk, first result)
        shows = []  # (tree wire form, level, text) for the model side
        last_fetch = None

        def run(desc, thunk):
            r = safe(thunk)
            done.append((desc, thunk, r))
            return r

        with mon:
            for op, seed in case["ops"]:
                rr = random.Random(seed)
                mon.writes = []
                mon.active = True
                desc = op
                if op in ("fetch", "fetch_track", "diff"):
                    sub = [s for s in sources if rr.random() < 0.7] or sources[:1]
                    kw = {"track_unused_definitions": True} if op == "fetch_track" else {}
                    if op == "diff":
                        f = lambda sub=sub: json.dumps(canon(objs_sx(master.fetch_diff(sources=sub))))
                    elif op == "fetch_track":
                        def f(sub=sub):
                            r, u = master.fetch(sources=sub, track_unused_definitions=True)
                            return json.dumps([canon(objs_sx(r)), [str(x) for x in u]])
                    else:
                        f = lambda sub=sub: json.dumps(canon(objs_sx(master.fetch(sources=sub))))
                    r = run(op, f)
                    if op == "fetch" and r[0] == "ok":
                        last_fetch = sub
                elif op == "fetch_other":
                    # the same source objects merged (with tracking) into ANOTHER master: must not influence later calls with the first
                    sub = [s for s in sources if rr.random() < 0.7] or sources[:1]
                    def f(sub=sub):
                        r, u = master2.fetch(sources=sub, track_unused_definitions=True)
                        return json.dumps([canon(objs_sx(r)), [str(x) for x in u]])
                    run(op, f)
                elif op == "extract":
                    run(op, lambda lf=last_fetch: json.dumps(dump_extract(master.fetch(sources=lf or []).extract())))
                elif op == "format":
                    run(op, lambda lf=last_fetch: master.format(master.fetch(sources=lf or []).extract()).as_str(attributes_level=3))
                elif op == "clone":
                    run(op, lambda: json.dumps(dump_extract(master.clone(master.extract()))))
                elif op == "show":
                    lv = rr.choice([0, 1, 2, 3])
                    key = rr.choice(sorted(longlived))
                    r = run("show", lambda lv=lv, key=key: longlived[key].as_str(attributes_level=lv))
                    if r[0] == "ok":
                        shows.append([objs_sx(longlived[key]), lv, r[1]])
                elif op == "arg":
                    a = rr.choice(ARGS)
                    run("arg " + a, lambda a=a: master.command_line_argument_interpreter(home_scope="s").process_arg(a).as_str())
                elif op == "resolve":
                    if sources:
                        s = rr.choice(sources)
                        run("resolve", lambda s=s: s.resolve_variables().as_str())
                elif op in ("pickle", "deepcopy"):
                    key = rr.choice(sorted(longlived))
                    orig = longlived[key]
                    cp = pickle.loads(pickle.dumps(orig)) if op == "pickle" else copy.deepcopy(orig)
                    if cp.as_str(attributes_level=3) != orig.as_str(attributes_level=3):
                        problems.append("%s copy of %s prints differently" % (op, key))
                    p = self.check_links(cp, orig)
                    if p:
                        problems.append("%s copy of %s: %s" % (op, key, p))
                    # a copy taken of an object INSIDE the tree keeps its place: same full path, same variable resolution
                    inner = [o for o in orig.objects if o.is_scope and o.objects]
                    if inner:
                        sc = rr.choice(inner)
                        for o in (sc, rr.choice(sc.objects)):
                            c2 = pickle.loads(pickle.dumps(o)) if op == "pickle" else copy.deepcopy(o)
                            if (c2.full_path(), c2.as_str(attributes_level=3)) != (o.full_path(), o.as_str(attributes_level=3)):
                                problems.append("%s copy of the nested object %s of %s: full path %r, prints differently: %s" % (
                                    op, o.full_path(), key, c2.full_path(), c2.as_str(attributes_level=3) != o.as_str(attributes_level=3)))
                            elif safe(lambda: c2.resolve_variables().as_str()) != safe(lambda: o.resolve_variables().as_str()):
                                problems.append("%s copy of the nested object %s of %s resolves its variables differently" % (op, o.full_path(), key))
                    def behaviour(m, srcs):
                        def f():
                            r = m.fetch(sources=srcs)
                            return [json.dumps(canon(objs_sx(r))), json.dumps(dump_extract(r.extract()))]
                        return safe(f)
                    if key == "master":
                        a, b = behaviour(cp, sources), behaviour(master, sources)
                        for s1 in sources:
                            if behaviour(cp, [s1]) != behaviour(master, [s1]):
                                a = None
                    else:
                        a, b = behaviour(master, [cp]), behaviour(master, [orig])
                    if a != b:
                        problems.append("%s copy of %s behaves differently in fetch/extract" % (op, key))
                elif op == "deep_edit":
                    key = rr.choice(sorted(longlived))
                    cp = copy.deepcopy(longlived[key])
                    self.scribble(cp, rr)
                elif op == "shallow_edit":
                    key = rr.choice(sorted(longlived))
                    objs = longlived[key].objects
                    if objs:
                        o = rr.choice(objs)
                        c2 = o.copy()
                        self.assign_fields(c2, rr)
                        c3 = o.customized_copy(name="renamed")
                        self.assign_fields(c3, rr)
                elif op == "result_edit":
                    r = safe(lambda: master.fetch(sources=last_fetch or sources[:1]))
                    if r[0] == "ok":
                        # copy() of every object of a fetch result (templates included) prints and is flagged like the original
                        def walk(sc):
                            for o in sc.objects:
                                yield o
                                if o.is_scope:
                                    yield from walk(o)
                        for o in walk(r[1]):
                            c = o.copy()
                            if (c.is_template, c.is_disabled, c.as_str(attributes_level=3)) != (o.is_template, o.is_disabled, o.as_str(attributes_level=3)):
                                problems.append("copy() of the fetch-result object %s differs from it (is_template %r -> %r)" % (
                                    o.full_path(), o.is_template, c.is_template))
                                break
                        for o in r[1].objects[:3]:
                            self.assign_fields(o, rr)
                elif op == "fetch_skip":
                    # the tolerant mode: a user file of an older layout offers a SCOPE under the name of a master definition (and a
                    # definition under the name of a master scope); the objects of the result are the caller's to edit (round 9)
                    names = [o.name for o in master.objects if not o.is_disabled and "." not in o.name]
                    pick = [n for n in names if rr.random() < 0.5] or names[:1]
                    text = "".join("%s {\n  c = 3\n}\n" % n if rr.random() < 0.7 else "%s = 1\n" % n for n in pick)
                    old = safe(lambda: fp.parse(input_string=text))
                    if old[0] == "ok":
                        sub = [old[1]] + [s for s in sources if rr.random() < 0.5]
                        f = lambda sub=sub: json.dumps(canon(objs_sx(master.fetch(sources=sub, skip_incompatible_objects=True))))
                        run(op, f)
                        r = safe(lambda: master.fetch(sources=sub, skip_incompatible_objects=True))
                        if r[0] == "ok":
                            for o in list(r[1].objects):
                                self.assign_fields(o, rr)
                elif op == "include_scope":
                    # the long-lived master spliced into another document by 'include scope' (twice, at two depths): the
                    # Python-level scope that is included must stay as it was (parent links and full paths included)
                    def f():
                        import sys as _sys, types as _types
                        mod = _types.ModuleType("c17_shared_scope_mod")
                        mod.master = master
                        _sys.modules["c17_shared_scope_mod"] = mod
                        try:
                            return fp.parse(
                                input_string="a {\n  include scope c17_shared_scope_mod.master\n}\nb {\n  c {\n    include scope c17_shared_scope_mod.master\n  }\n}\n",
                                process_includes=True).as_str(attributes_level=3)
                        finally:
                            _sys.modules.pop("c17_shared_scope_mod", None)
                    run(op, f)
                elif op == "index_reset":
                    # the GUI index works on master.fetch(); resetting a scope of ITS working parameters in place must not reach
                    # what master.fetch() returns afterwards (no result of fetch is shared between callers)
                    def f():
                        from freephil import interface
                        m2 = fp.parse(case["master"])        # a master of its own: the index fills in captions on the tree it is given
                        before = m2.fetch().as_str()
                        try:
                            idx = interface.index(master_phil=m2)
                        except Exception:  # noqa  (an untyped definition: the index refuses the master)
                            return "index-not-applicable"
                        names = [o.name for o in m2.objects if o.is_scope and not o.is_disabled and not o.multiple]
                        if names:
                            idx.reset_scope(names[0])
                        after = m2.fetch().as_str()
                        same = m2.fetch(sources=[]).as_str()
                        return [before == after, after == same]
                    r = run(op, f)
                    if r[0] == "ok" and isinstance(r[1], list) and r[1] != [True, True]:
                        problems.append("after index(master).reset_scope(...) master.fetch() %s" % (
                            "changed" if not r[1][0] else "differs from master.fetch(sources=[])"))
                elif op == "parse_reg":
                    # the same text parsed with one of two converter registries that bind one type name to different
                    # converters (and, half of the time, kept alive): the result depends on the arguments only
                    k = rr.randrange(2)
                    factor = (1.0, 1000.0)[k]
                    def f(k=k):
                        m = fp.parse(input_string=REG_TEXT, converter_registry=self.registries()[k])
                        if rr.random() < 0.5:
                            self.keep.append(m)
                            del self.keep[:-4]
                        return [m.as_str(attributes_level=3), m.extract().d, m.extract().n,
                                type(m.get("d", with_substitution=False).objects[0].type).__name__]
                    r = run("parse_reg %d" % k, f)
                    if r[0] != "ok" or r[1][1] != 2 * factor or r[1][2] != 3 or r[1][3] != "length_%d_converters" % k:
                        problems.append("parse with converter registry %d gave %r, expected d = %r by converter length_%d" % (
                            k, r, 2 * factor, k))
                elif op == "repeat" and done:
                    desc, thunk, first = rr.choice(done)
                    again = safe(thunk)
                    if again != first:
                        problems.append("repeating %r gave a different result" % desc)
                mon.active = False
                bad = sorted(set(w for w in mon.writes if w[1] != "tmp"))
                if bad:
                    problems.append("%s wrote fields %s of pre-existing objects" % (op, bad))
                now = snap()
                if now != base:
                    changed = [k for k in now if now[k] != base[k]]
                    problems.append("after %s the long-lived object(s) %s changed" % (op, changed))
                    base = now
        self.req[id(case)] = shows
        return ["ok", problems[:5], [t for _, _, t in shows]]

    @staticmethod
    def check_links(cp, orig):
        ids_orig = set()
        stack = [orig]
        while stack:
            o = stack.pop()
            ids_orig.add(id(o))
            if o.is_scope:
                stack.extend(o.objects)
            else:
                ids_orig.update(id(w) for w in o.words)
        stack = [(cp, None)]
        while stack:
            o, parent = stack.pop()
            if id(o) in ids_orig:
                return "shares an object with the original"
            if parent is not None and o.primary_parent_scope is not parent:
                return "child %r is not linked to its copied parent" % o.name
            if o.is_scope:
                stack.extend((k, o) for k in o.objects)
            else:
                if any(id(w) in ids_orig for w in o.words):
                    return "shares a word with the original"
        return None

    @staticmethod
    def assign_fields(o, rr):
        o.name = "zz"
        o.is_disabled = True
        o.help = "changed"
        o.expert_level = 9
        o.multiple = True
        if o.is_definition:
            o.words = []
            o.type = None
        else:
            o.objects = []

    def scribble(self, cp, rr):
        stack = [cp]
        while stack:
            o = stack.pop()
            if o.is_scope:
                stack.extend(o.objects)
                if rr.random() < 0.3 and o.objects:
                    del o.objects[0]
            else:
                for w in o.words:
                    w.value = "scribbled"
                o.words.append(o.words[0] if o.words else None)
            o.name = o.name + "x" if o.name else o.name

    def requests(self, case, o):
        shows = self.req.pop(id(case), [])
        return [("show", [t, "", [], lv, []]) for t, lv, _ in shows]

    def model(self, case, replies, o):
        if o[0] != "ok":
            return o
        texts = []
        for r in replies:
            if r[0] == "uerr" and r[1] == "Unmodelled":
                return "UNMODELLED"
            texts.append(r[1] if r[0] == "ok" else "!" + r[1])
        return ["ok", o[1], texts]

    def prop(self, case, o):
        if o[0] != "ok":
            return "history could not be run: %s" % (o[1:],)
        if o[1]:
            return "; ".join(o[1])
        return None

    def tag(self, case, o):
        return "ops=%d" % (len(case["ops"]) // 5 * 5)

    def shrink(self, case):
        ops = case["ops"]
        for i in range(len(ops)):
            c = dict(case); c["ops"] = ops[:i] + ops[i + 1:]
            yield c
        for i in range(len(case["sources"])):
            if len(case["sources"]) > 1:
                c = dict(case); c["sources"] = case["sources"][:i] + case["sources"][i + 1:]
                yield c


SPEC = {
    "clusters": ["Parse"],
    "streams": [Histories],
    "rule": "random masters (typed definitions, choices, multiples, nested/dotted scopes, disabled, deprecated) and 1-3 sources x random call histories of "
            "6-18 steps over {fetch, fetch with tracking, fetch_diff, extract, format, clone, as_str at every level, process_arg, resolve_variables, pickle, "
            "deepcopy, field assignment on shallow copies / customized copies / fetch results, arbitrary in-place edits of deep copies, repeat an earlier call}; "
            "after every step: write monitor (only 'tmp' may be written on pre-existing objects), level-3 text and full structural dump of every long-lived "
            "object unchanged, repeated calls equal, copies print/behave identically, share nothing, children linked to copied parents; every as_str "
            "result is also compared with the printer model; distinct = distinct history",
    "trusted": ["The purity statement itself is about object identity and mutation, which the immutable Coq value model cannot exhibit: it is observed at run time by "
                "the write monitor (class-level __setattr__ wrappers installed by the harness, no source hook) and by snapshots; PARTIAL."],
    "modelled": "printer model for every as_str in the history; theorems in C17.v: printing ignores ids/lines/tmp (a function of the structural tree)",
    "assumptions": ["in-place list mutation is detected by snapshot comparison, not by the write monitor"],
}
