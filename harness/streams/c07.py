"""C07 - Fetching is idempotent and insensitive to complete copies of the master.

Stream cycles (cluster Idem = the Fetch model + EntryIdem.run_fetch_self): generated master x 0-4 sources x k in 1..4
cycles.  Plan per case - EVERY step is one master.fetch call on the implementation and one request to the extracted
model with the canon oracle table recorded during that very call (fetch_common.run_step):
  0        W = M.fetch(S)
  1        Dflt = M.fetch()                              (the master's own defaults)
  2 .. 2k+1  two chains of k cycles starting at W: object form  M.fetch(previous result object)
                                                    text form    M.fetch(parse(previous result.as_str()))
  then     M.fetch([M] + S)            the master object ITSELF first (Python identity; model: EntryIdem.unself)
           M.fetch([parse(M text)] + S) a complete copy of the master first
           M.fetch([Dflt] + S)          the master's defaults first, as an object
           M.fetch([parse(Dflt.as_str())] + S)          ... re-parsed from their printed text
  (with S = [] the third-last and fourth-last are "fetching with no source equals fetching M")
Property oracle (prop) on the implementation's observations = the property text:
  every step succeeds when step 0 does; object-form cycles, master-itself and master-copy reproduce W's TREE exactly
  (Properties/C07.v: C07_refetch, C07_history, C07_master_self, C07_master_copy, C07_empty); every step prints W's text
  (as_str) and extracts W's values (extract() dumped).
Domain of the claim (in_domain) = D07 of Properties/C07.v evaluated on the case: unique non-empty sibling names,
no deprecated definition, no "$", modelled converters, stable choices, and H_default_canonical for every .multiple entry
(evaluated with the library's own extract_format on the entry fetched against a copy of itself).  Cases outside
are still run and compared with the model (correspondence); their property failures are reported only through the
recorded findings (match_finding).
"""
import json
import os
import warnings

import vlib
from vlib import canon, objs_sx, exc_class

import fetch_common as fc
from fetch_common import FetchStream, run_step, patched_environ, var_names, reraise_control


# ----------------------------------------------------------------------------- the domain D07, on the implementation
def entries_of(scope):
    """master_active_objects; None if it would raise"""
    first = {}
    out = []
    for o in scope.objects:
        if o.is_disabled:
            continue
        f = first.setdefault(o.name, o)
        if f is not o:
            if f.multiple:
                continue
            if o.is_definition:
                return None
        out.append(o)
    return out


def path_obj(root, path):
    o = root
    for i in path:
        o = o.objects[i]
    return o


def unstar(v):
    return v[1:] if v.startswith("*") else v


def choice_reasons(k):
    """why the choice definition k is not choice_stable (syntactic sufficient condition; [] = stable)"""
    alts = [unstar(w.value) for w in k.words]
    if len(k.words) == 1 and k.words[0].quote_token is None and k.words[0].value.lower() in ("none", "auto"):
        return ["choice-ill-formed"]
    r = []
    if len(alts) < 2:
        r.append("single-choice")
    low = [a.lower() for a in alts]
    if (len(set(low)) != len(low) or any(a in ("none", "auto") for a in low) or any(a.startswith("*") for a in alts)
            or any("+" in a for a in alts) or any(a.strip() == "" for a in alts)):
        r.append("choice-ill-formed")
    return r


def is_canonical_def(k):
    try:
        return k.extract_format().as_str() == k.as_str()
    except BaseException as e:  # noqa
        reraise_control(e)
        return False


def classify_default_failure(k):
    """k: a .multiple entry whose own defaults instance is not canonically itself: which mechanism"""
    sig = set()
    if k.is_scope:
        def walk(sc):
            es = entries_of(sc) or []
            act = [o for o in sc.objects if not o.is_disabled]
            for e in es:
                if e.multiple:
                    if len([o for o in act if o.name == e.name]) > 1:
                        sig.add("nested-repeated-inner")
                    if e.is_definition and not is_canonical_def(e):
                        sig.add("nested-noncanonical-default")
                    if e.is_scope:
                        if has_noncanonical(e):
                            sig.add("nested-noncanonical-default")
                if e.is_scope:
                    walk(e)
        walk(k)
    return sig or {"default-not-canonical-other"}


def has_noncanonical(sc):
    for o in sc.objects:
        if o.is_disabled:
            continue
        if o.is_definition:
            if not is_canonical_def(o):
                return True
        elif has_noncanonical(o):
            return True
    return False


def domain_reasons(fp, mtext, stexts):
    """reasons why the case is outside D07 (empty set = inside)"""
    rs = set()
    if fc.has_dollar([mtext] + list(stexts)):
        rs.add("dollar")
    import re
    if re.search(r"(?<![\w.])__[\w.]*__\.[\w.]", mtext):
        rs.add("reserved-dotted-shell")      # a dotted name whose proper prefix is spelt like a reserved identifier
    try:
        m = fp.parse(input_string=mtext)
        mc = fp.parse(input_string=mtext)
    except BaseException as e:  # noqa
        reraise_control(e)
        return {"unparsable"}

    def walk(sc, path):
        es = entries_of(sc)
        if es is None:
            rs.add("duplicate-definition")
            return
        names = [k.name for k in es]
        if len(set(names)) != len(names):
            rs.add("duplicate-scope-name")
        act = [o for o in sc.objects if not o.is_disabled]
        if len(act) != len(es):
            rs.add("further-occurrence")          # allowed by C07_refetch, not by the master-copy theorems
        for k in es:
            idx = [i for i, o in enumerate(sc.objects) if o is k][0]
            p = path + [idx]
            if k.alias is not None:
                rs.add("alias")
            if k.is_definition:
                if k.deprecated:
                    rs.add("deprecated")
                try:
                    with warnings.catch_warnings():
                        warnings.simplefilter("ignore")
                        k.extract_format().as_str()
                except BaseException as e:  # noqa
                    reraise_control(e)
                    rs.add("invalid-default")     # the master's own default is not a value of its type
                t = k.type
                if t is not None:
                    pt = getattr(t, "phil_type", None)
                    if pt == "choice":
                        rs.update(choice_reasons(k))
                        if any(w.quote_token is None and w.value.lstrip("*") in ("#", ";", "{", "}", "\\") for w in k.words):
                            rs.add("choice-alternative-delimiter")   # an alternative that is a delimiter once its star is gone
                    elif vlib.ty_sx(t)[0] == "other" and not (str(t).startswith("float") or str(t).startswith("int")):
                        rs.add("unmodelled-type")
            if k.multiple:
                try:
                    with warnings.catch_warnings():
                        warnings.simplefilter("ignore")
                        cand = k.fetch(source=path_obj(mc, p))
                        a = k.extract_format(source=cand).as_str()
                        b = k.extract_format().as_str()
                    if a != b:
                        rs.update(classify_default_failure(k))
                except BaseException as e:  # noqa
                    reraise_control(e)
                    rs.add("invalid-default")
            if k.is_scope:
                walk(k, p)

    walk(m, [])
    return rs


# reasons that are recorded findings (signature -> proposed id); everything else is a domain boundary
FINDING_SIGNATURES = {
    "nested-noncanonical-default": "F7a",
    "nested-repeated-inner": "F7b",
    "single-choice": "F7d",
}


def registered_signatures(pid):
    return {f.get("signature") for f in vlib.load_findings(pid) if f.get("status") == "open" and f.get("signature")}


# ----------------------------------------------------------------------------- extract() dump
def dump_extract(fp, scope):
    from freephil.common import scope_extract

    def go(v):
        if isinstance(v, scope_extract):
            return {k: go(getattr(v, k)) for k in sorted(v.__dict__) if not k.startswith("__")}
        if isinstance(v, list):
            return [go(x) for x in v]
        if type(v).__name__ == "AutoType":
            return "Auto"
        return repr(v)

    try:
        with warnings.catch_warnings():
            warnings.simplefilter("ignore")
            return go(scope.extract())
    except BaseException as e:  # noqa
        reraise_control(e)
        return "ERR:" + exc_class(e)



# ----------------------------------------------------------------------------- values that stress the text route
# (own generator layer on top of fetch_common's: the printed-text clauses need values whose printing wraps, words
#  spanning lines, and the quoted one-item lists "None" / "Auto" next to the special values None / Auto)
TEXT_TYPES = ("words", "str", "strings", "qstr")
PHRASES = ["Refinement of the high resolution data set,", "second attempt with tighter restraints", "run 7", "2024",
           "a b", "merged with the low resolution pass", "x", "final", "see notes; keep", "alpha beta gamma delta",
           "0123456789 0123456789 0123456789", "q"]
NONE_AUTO_ITEMS = ['"None"', '"Auto"', '"auto"', '"NONE"', '"none"', '"AUTO"', "'Auto'", "'None'"]


def text_defs(items, prefix=(), dis=False):
    """[(components, item)] of the active text-typed master definitions (no disabled object on the way)"""
    out = []
    for it in items:
        d = dis or bool(it[2])
        p = prefix + (it[1],)
        if it[0] == "d":
            if not d and it[5] in TEXT_TYPES and "deprecated" not in it[3]:
                out.append((p, it))
        else:
            out.extend(text_defs(it[4], p, d))
    return out


def phrase(rng, lo, hi):
    s = rng.choice(PHRASES)
    while len(s) < lo:
        s += " " + rng.choice(PHRASES)
    return s[:hi].rstrip() or "x"


def wrap_value(rng):
    """a value whose printed form is wider than the print width; mostly starting with a quoted word that spans lines"""
    r = rng.random()
    words = []
    if r < 0.7:
        words.append('"%s\n%s"' % (phrase(rng, 5, rng.randint(20, 60)), phrase(rng, 3, rng.randint(10, 55))))
    n = rng.randint(1, 3) if r < 0.7 else rng.randint(6, 14)
    for _ in range(n):
        w = phrase(rng, 1, rng.randint(3, 24))
        words.append('"%s"' % w if (" " in w or ";" in w or "," in w or rng.random() < 0.6) else w)
    if r >= 0.7 and rng.random() < 0.4:
        words.insert(rng.randrange(len(words)), '"%s\n%s"' % (phrase(rng, 3, 30), phrase(rng, 3, 30)))
    return " ".join(words)


def gen_case2(rng, floats=False, variables=None, max_sources=3, dup=True, profile="shape", special=0.35):
    """fetch_common.gen_case plus, in a fraction [special] of the cases, text-typed parameters with default None / Auto
    and an extra source assigning them wrapping / multi-line values or the quoted items "None" / "Auto" / ..."""
    budget = [rng.randint(2, 11)]
    m = fc.gen_master_items(rng, 0, budget, floats=floats, dup=dup)
    paths = fc.master_paths(m)
    if variables is None:
        variables = rng.random() < 0.12
    tdefs = text_defs(m)
    do_special = bool(tdefs) and rng.random() < special
    if do_special:
        for p, it in tdefs:
            if rng.random() < 0.5:
                it[4] = rng.choice(["None", "Auto", "Auto", "none", "auto"])
    ns = rng.choice([0, 1, 1, 1, 2, 2, 3, 4][: 4 + max_sources])
    srcs = [fc.gen_source(rng, paths, variables, profile) for _ in range(ns)]
    if do_special:
        lines = []
        for p, it in rng.sample(tdefs, min(len(tdefs), rng.randint(1, 2))):
            for _ in range(rng.randint(1, 2) if it[3].get("multiple") == "True" else 1):
                v = wrap_value(rng) if rng.random() < 0.5 else rng.choice(NONE_AUTO_ITEMS)
                lines.append("%s = %s\n" % (".".join(p), v))
        extra = "".join(lines)
        if srcs and rng.random() < 0.5:
            srcs[-1] = srcs[-1] + extra
        else:
            srcs.append(extra)
    env = []
    if variables and rng.random() < 0.5:
        env = sorted([k, rng.choice(["E", "1", "e v"])] for k in set(rng.choice(["v", "w", "a"]) for _ in range(rng.randint(1, 2))))
    kind = "float" if floats else "var" if variables else "special" if do_special else "plain"
    return {"m": fc.render_master(m), "s": srcs, "env": env, "diff": 0, "kind": kind}

# ----------------------------------------------------------------------------- object identity inside templates
def nested_multiple_entries(master):
    """the .multiple entries lying inside a .multiple scope (at any depth), as objects"""
    out = []

    def walk(sc, inmult):
        for k in entries_of(sc) or []:
            if k.multiple and inmult:
                out.append(k)
            if k.is_scope:
                walk(k, inmult or bool(k.multiple))

    walk(master, False)
    return out


def identity_probes(master, with_diff=False):
    """A template copy of a .multiple scope shares its child objects with the master (scope.copy is shallow).  When
    such a template comes back as a source (object-form re-fetch, defaults as first source), Python's test
    'matching_source is master_object' passes over the inner .multiple entries WITHOUT comparing canonical texts,
    so the recorded oracle lacks the answers the identity-free model asks for.  They are supplied here: for every
    nested .multiple entry k the texts of k.fetch(k) and of k itself.  Returns (extra table entries, dependent):
    dependent = some inner entry's own defaults instance is NOT canonically itself - only then can the identity
    test and the model's text comparison disagree (such cases are counted as unmodelled)."""
    rec = fc.CanonRecorder()
    dependent = False
    with rec, warnings.catch_warnings():
        warnings.simplefilter("ignore")
        for k in nested_multiple_entries(master):
            try:
                cand = k.fetch(source=k)
                a = k.extract_format(source=cand).as_str()
                b = k.extract_format().as_str()
                if a != b:
                    dependent = True
                if with_diff:
                    dc = k.fetch(source=k, diff=True)
                    if dc is not None and (k.is_definition or len(dc.objects) > 0):
                        dependent = True          # the identity-free model would keep a difference here
            except BaseException as e:  # noqa
                reraise_control(e)
                dependent = True
    return rec.table(), dependent


def merge_tables(t, extra):
    seen = {json.dumps(canon(e[:2])): e for e in t}
    for e in extra:
        k = json.dumps(canon(e[:2]))
        old = seen.get(k)
        if old is None:
            seen[k] = e
        elif canon(old[2]) != canon(e[2]):
            raise vlib.HarnessError("canon oracle is not a function of its key (probe vs run)")
    return [seen[k] for k in sorted(seen)]


class Cycles(FetchStream):
    name = "cycles"
    cluster = "Idem"
    impl_timeout = 20.0
    pid = "C07"

    def __init__(self, ctx):
        super().__init__(ctx)
        self.side = {}
        self.dependent = {}
        self.registered = registered_signatures(self.pid)
        self.dom_cache = {}

    # -- plan
    def nk(self, case):
        return max(1, min(4, int(case.get("k", 2))))

    def plan(self, case):
        n = len(case["s"])
        S = [["s", i] for i in range(n)]
        steps = [{"master": "m", "sources": S, "diff": False, "track": False, "role": "W"},
                 {"master": "m", "sources": [], "diff": False, "track": False, "role": "defaults"}]
        po, pt = 0, 0
        for c in range(self.nk(case)):
            steps.append({"master": "m", "sources": [["r", po]], "diff": False, "track": False, "role": "obj"})
            po = len(steps) - 1
            steps.append({"master": "m", "sources": [["p", pt]], "diff": False, "track": False, "role": "txt"})
            pt = len(steps) - 1
        steps.append({"master": "m", "sources": ["m"] + S, "diff": False, "track": False, "role": "self"})
        steps.append({"master": "m", "sources": [["t", case["m"]]] + S, "diff": False, "track": False, "role": "copy"})
        steps.append({"master": "m", "sources": [["r", 1]] + S, "diff": False, "track": False, "role": "dflt-obj"})
        steps.append({"master": "m", "sources": [["p", 1]] + S, "diff": False, "track": False, "role": "dflt-txt"})
        return steps

    # -- implementation (FetchStream.impl + printed text and extracted values per step, kept beside the observation)
    def impl(self, case):
        fp = self.fp
        key = self.ckey(case)
        try:
            objs = {"m": fp.parse(input_string=case["m"]), "s": [fp.parse(input_string=t) for t in case["s"]]}
        except BaseException as e:  # noqa
            reraise_control(e)
            self.stash[key] = []
            self.side[key] = []
            return ["badcase", exc_class(e)]
        env = dict((k, v) for k, v in case.get("env", []))
        universe = var_names([case["m"]] + list(case["s"]))
        obs, reqs, results, side = [], [], [], []
        with patched_environ(env, universe):
            extra, dependent = identity_probes(objs["m"])
            self.dependent[key] = dependent
            for step in self.plan(case):
                try:
                    master = self._resolve(step["master"], case, objs, results)
                    sources = [self._resolve(r, case, objs, results) for r in step["sources"]]
                except BaseException as e:  # noqa
                    reraise_control(e)
                    master, sources = None, [None]
                if master is None or any(s is None for s in sources):
                    obs.append(["skipped"])
                    reqs.append(None)
                    results.append(None)
                    side.append(None)
                    continue
                o, rq, res = run_step(fp, master, sources, sorted(env.items()), step["diff"], step["track"])
                if extra:
                    rq[3] = merge_tables(rq[3], extra)
                if step["role"] == "self":
                    # the model gets the sources AFTER the master object itself: (master sources env table diff)
                    rq = ("fetch_self", [rq[0], rq[1][1:], rq[2], rq[3], rq[4]])
                else:
                    rq = ("fetch", rq)
                obs.append(o)
                reqs.append(rq)
                results.append(res)
                side.append(None if res is None else {"text": res.as_str(), "ext": dump_extract(fp, res)})
        self.stash[key] = reqs
        self.side[key] = side
        if len(self.side) > 20000:
            self.side.clear()
            self.dependent.clear()
        return obs

    def requests(self, case, impl_obs):
        return [r for r in self.stash.get(self.ckey(case), []) if r is not None]

    def model(self, case, replies, impl_obs):
        if self.dependent.get(self.ckey(case)):
            return "UNMODELLED"          # object identity between master and template copies decides (see identity_probes)
        return super().model(case, replies, impl_obs)

    # -- the property on the implementation
    def reasons(self, case):
        k = json.dumps([case["m"], case["s"]])
        r = self.dom_cache.get(k)
        if r is None:
            r = domain_reasons(self.fp, case["m"], case["s"])
            if len(self.dom_cache) > 50000:
                self.dom_cache.clear()
            self.dom_cache[k] = r
        return r

    # further master occurrences of a .multiple entry: C07_refetch covers them; the master-copy clauses are then
    # claimed on the strength of the oracle only (the theorems C07_master_copy / _self / _empty ask for unique names)
    ALLOWED_OUTSIDE = {"further-occurrence"}

    def in_domain(self, case):
        rs = self.reasons(case) - self.ALLOWED_OUTSIDE
        # F7a / F7b / F7d: genuine defects; until they are registered in known_findings.json (by signature) the
        # cases carrying their signature stay outside the claimed domain, afterwards they are evaluated and
        # must be recognised by match_finding
        return all(r in self.registered for r in rs)

    def prop(self, case, obs):
        if not isinstance(obs, list) or not obs or not isinstance(obs[0], list) or obs[0][0] != "ok":
            return None
        side = self.side.get(self.ckey(case))
        if side is None or len(side) != len(obs):
            return None
        plan = self.plan(case)
        w_tree, w_side = obs[0][1], side[0]
        for j, (st, o) in enumerate(zip(plan, obs)):
            role = st["role"]
            if role in ("W", "defaults"):
                if o[0] != "ok" and role == "defaults":
                    return None          # a master whose defaults cannot be fetched: nothing to claim
                continue
            if o[0] != "ok":
                return "%s (step %d): %s instead of W" % (role, j, json.dumps(o)[:200])
            if role in ("obj", "self", "copy") and o[1] != w_tree:
                return "%s (step %d): the result tree differs from W: prints %r instead of %r" % (
                    role, j, side[j]["text"][:200], w_side["text"][:200])
            if side[j]["text"] != w_side["text"]:
                return "%s (step %d): prints %r instead of %r" % (role, j, side[j]["text"][:200], w_side["text"][:200])
            if side[j]["ext"] != w_side["ext"]:
                return "%s (step %d): extracts %s instead of %s" % (role, j, json.dumps(side[j]["ext"])[:200],
                                                                    json.dumps(w_side["ext"])[:200])
        return None

    # -- bookkeeping
    def key(self, case, o):
        return self.ckey(case)

    def tag(self, case, o):
        if not isinstance(o, list) or not o:
            return "other"
        if o[0] == "badcase" or not isinstance(o[0], list):
            return str(o[0])
        rs = self.reasons(case)
        out = rs - self.ALLOWED_OUTSIDE
        dom = ("D07" + ("+further-occurrence" if rs & self.ALLOWED_OUTSIDE else "")) if not out else "out:" + "+".join(sorted(out))[:60]
        first = "ok" if o[0][0] == "ok" else "err:" + (o[0][2] or o[0][1])
        return "%s:%s:k%d" % (dom, first, self.nk(case))

    def corpus(self):
        return CORPUS

    def cases(self, rng, tier):
        n = 1400 if tier == "quick" else 6500
        for i in range(n):
            r = rng.random()
            c = gen_case2(rng, floats=(i % 10 == 9), variables=(False if r < 0.85 else None), dup=(r < 0.30),
                          max_sources=3, profile="shape")
            c["k"] = rng.randint(1, 4)
            yield c

    def shrink(self, case):
        for c in super().shrink(case):
            yield c
        if self.nk(case) > 1:
            c = dict(case)
            c["k"] = self.nk(case) - 1
            yield c

    def neighbours(self, case, rng):
        yield from self.shrink(case)
        for k in (1, 2, 3, 4):
            c = dict(case)
            c["k"] = k
            yield c


def _c(m, s, k=2):
    return {"m": m, "s": s, "env": [], "diff": 0, "kind": "plain", "k": k}


CORPUS = [
    # the worked example of Proofs/FetchExamples.v / C07_domain_satisfiable
    _c("a = 1\ns\n  .multiple = True\n{\n  b = x\n}\n!d = 0\n", ["a = 2\ns { b = y }\ns { b = x }\nzz = 1\nd = 7\n"], 3),
    # F7a: the design-time witness (C07_refuted_nested_multiple)
    _c("s\n  .multiple = True\n{\n  d = yes\n    .type = bool\n    .multiple = True\n}\n", ["s { d = no }\n"], 2),
    # the same with the default in canonical form: inside the domain, stable
    _c("s\n  .multiple = True\n{\n  d = True\n    .type = bool\n    .multiple = True\n}\n", ["s { d = False }\n"], 4),
    # F7a with an untyped default whose canonical form is quoted
    _c("s\n  .multiple = True\n{\n  c\n    .multiple = True\n  {\n    x = 1\n  }\n}\n", ["s { c { x = 2 } }\n"], 1),
    # F7b: an inner multiple with two master occurrences inside a multiple scope
    _c("u\n  .multiple = True\n{\n  d = a b\n    .type = strings\n    .multiple = True\n  d = None\n    .type = strings\n    .multiple = True\n}\n", [], 1),
    # F7d: a choice with a single alternative (C07_refuted_single_choice)
    _c("u = y\n  .type = choice\n", [], 1),
    # non-canonical defaults outside multiple scopes: harmless
    _c("d = yes\n  .type = bool\n  .multiple = True\ne = 1.0\n  .type = float\nf = a b\n  .type = str\n", ["d = no\nd = 1\ne = 2\n"], 4),
    # further master occurrences of a multiple definition (C07_refetch covers them)
    _c("d = 1\n  .type = int\n  .multiple = True\nd = 2\n  .type = int\n  .multiple = True\n", ["d = 3\nd = 2\n"], 3),
    # .optional = False: the template is a real instance
    _c("s\n{\n  b\n    .optional = False\n    .multiple = True\n  {\n    c = 1,2\n      .type = ints\n    !c = 7\n  }\n}\n",
       ["s { b { c = 0 } }\n"], 2),
    # no source at all
    _c("a = 1\n  .type = int\ns { b = x y\n c = *p q\n  .type = choice\n}\n", [], 2),
    # a quoted word spanning two lines followed by further quoted words: the printed value must not be wrapped right
    # after it (formerly F1); long values wrap
    _c("job {\n  title = None\n    .type = strings\n  tag = 0\n    .type = int\n    .multiple = True\n}\n",
       ["job {\n  title = \"Refinement of the high resolution data set,\nsecond attempt with tighter restraints\" \"run 7\" \"2024\"\n  tag = 5\n  tag = 6\n}\n"], 3),
    _c("t = a\nu = None\n  .type = str\n", ["t = alpha beta gamma delta \"see notes; keep\" 0123456789 0123456789 0123456789 final q x \"a b\" 2024 merged\nu = \"x\ny\" \"merged with the low resolution pass\" \"second attempt with tighter restraints\"\n"], 2),
    # the quoted items "Auto" / "None" are ordinary strings, not the special values
    _c("labels = Auto\n  .type = strings\ntags = Auto\nn = None\n  .type = strings\n", ["labels = \"Auto\"\ntags = \"auto\"\nn = \"None\"\n"], 2),
    # findings C07-reserved-shell / C07-choice-delimiter (counterexamples of Proofs/FetchDomain.v): the printed result does not parse
    _c("!__a.b__.c = 1\n", [], 1),
    _c("c = *# b\n  .type = choice\n", ["c = b\n"], 1),
    # an escaped dollar next to a substituted reference: the backslash stays in W, so fetching W again leaves it alone
    _c("root = /data\ncmd = x\n", ["root = /d\ncmd = \"$root/run --out \\$root/out\"\n"], 2),
    _c("a = 1\nb = x\n", ["b = pre\\$a$(a)\n", "b = \"\\$5 and $a\"\n"], 2),
    # a backslash directly in front of a line break inside a value: printed escaped, so saving and re-loading keeps it
    _c("s = None\n  .type = str\nt = a\n", ["s = \"tar -x \\\\\n  -f data.tar\"\nt = 'p\\\\\nq' \"r\\\\\"\n"], 3),
    # a value that is one quoted backslash at the end of its line, another definition after it (a quoted lone backslash
    # is no continuation mark: saving and re-loading keeps both definitions)
    _c("sep = \"/\"\n  .type = str\nn = 1\n  .type = int\n", ["n = 4\nsep = \"\\\\\"\n"], 2),
    # deprecated: outside the domain (hidden in the printed text by design)
    _c("a = 1\n  .deprecated = True\nb = 2\n", ["a = 3\n"], 1),
]


def signatures_of_case(case):
    fp = vlib.import_freephil()
    return domain_reasons(fp, case["m"], case["s"])


def match_finding(finding, failure):
    sig = finding.get("signature")
    if not sig:
        return False
    try:
        return sig in signatures_of_case(failure["case"])
    except Exception:
        return False


class NoSourceStable(vlib.Stream):
    """'Fetching with no source equals fetching M', over a sequence of calls: the result of M.fetch() belongs to the caller
    (the GUI index edits it in place), so emptying it, or resetting a scope through interface.index, leaves later
    M.fetch(), M.fetch(sources=[]) and M.fetch(source=M) as they were.  Oracle only."""
    name = "no_source_stable"
    cluster = "Idem"

    def __init__(self, ctx):
        super().__init__(ctx)
        self.fp = vlib.import_freephil()

    def cases(self, rng, tier):
        for i in range(150 if tier == "quick" else 1500):
            c = gen_case2(rng, floats=False, variables=False, dup=False, max_sources=1, profile="shape")
            yield {"m": c["m"]}

    def impl(self, case):
        fp = self.fp
        with warnings.catch_warnings():
            warnings.simplefilter("ignore")
            try:
                m = fp.parse(input_string=case["m"])
                first = m.fetch()
                a = first.as_str()
                viam = m.fetch(source=m).as_str()
            except (RuntimeError, fp.Sorry):
                return ["refused"]
            del first.objects[:]                      # the caller's copy, edited in place
            try:
                from freephil import interface
                idx = interface.index(master_phil=m)
                names = [o.name for o in m.objects if o.is_scope and not o.is_disabled and not o.multiple]
                if names:
                    idx.reset_scope(names[0])
            except Exception:  # noqa  (untyped definitions: the index refuses the master)
                pass
            b = m.fetch().as_str()
            c = m.fetch(sources=[]).as_str()
            d = m.fetch(source=m).as_str()
        return ["ok", a == b, b == c, d == viam]

    def requests(self, case, o):
        return []

    def model(self, case, replies, o):
        return o

    def prop(self, case, o):
        if o[0] == "ok" and o[1:] != [True, True, True]:
            return "after the result of M.fetch() was edited in place: M.fetch() unchanged %s, equals M.fetch(sources=[]) %s, M.fetch(M) unchanged %s" % tuple(o[1:])
        return None

    def tag(self, case, o):
        return o[0]


SPEC = {
    "clusters": ["Idem"],
    "streams": [Cycles, NoSourceStable],
    "rule": "seeded grammar masters of the fetch checks (7-name pool; every built-in type incl. untyped, int/ints with bounds, choice "
            "single/multi, float/floats in one case of ten; defaults in canonical and non-canonical spelling - yes/1/0 for bool, 3*2 "
            "for int, 1,2 for ints, unquoted strings; .multiple/.optional in all combinations incl. multiples nested in multiple scopes; "
            "30 % of the masters with deliberately repeated sibling names / further master occurrences; disabled objects; deprecated; "
            "depth <= 3) x 0-3 sources generated from the master's paths (valid / invalid values, repeated, misspelt, wrongly nested, "
            "clashes, empty scope instances, disabled, dotted / nested spelling; $variables in 5 %) x k in 1..4 cycles; per case "
            "2k + 6 fetch calls (object-form chain, text-form chain through as_str + parse, master itself, master copy, defaults "
            "as object and as text), each compared with the extracted model; distinct = distinct (master, sources, env, k)",
    "trusted": fc.COMMON_TRUSTED + [
        "EntryIdem.unself models Python's identity test 'matching_source is master_object' when the master object itself is "
        "among the sources (the first occurrence of every .multiple entry is passed over, recursively through non-multiple "
        "scopes); tied to the implementation by the step 'self' of every case.",
        "The text-form clauses (as_str + parse) and 'defaults as first source' are decided by the oracle on the implementation "
        "and by step-wise correspondence; they are not among the theorems.",
    ],
    "modelled": "hand-written model coq/theories/Model/Fetch.v (+ Vars.v, Choice.v, EntryIdem.v); canon (extract_format + as_str) and "
                "os.environ are oracles recorded from the implementation run; parser and printer are input for the text forms",
    "assumptions": ["text restricted to code points < 256", "masters without .alias", "no custom converter types",
                    "domain D07 of Properties/C07.v is evaluated per case on the implementation (in_domain): unique sibling names, no "
                    "deprecated definition, no $, stable choices, H_default_canonical for every .multiple entry"],
    "match_finding": match_finding,
}
