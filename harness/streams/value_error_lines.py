"""Value errors of fetch + extract on a value that is spread over several lines (shared by C15)."""
import re
import parse_common as pc
from vlib import Stream, import_freephil, exc_class

_TOKEN = re.compile(r"Not a possible choice for [^:]*: (\S+)")


class ValueErrorLines(Stream):
    """A typed master against a user document whose value is continued with backslashes over several lines, after a
    random number of blank / comment lines: a RuntimeError or Sorry of fetch or extract that cites a line cites the
    line on which the offending value starts (the first word of the definition), or - when the message names one
    token of the value ('Not a possible choice') - a line on which that token stands.  Oracle only (round 9:
    the size report of ints/floats cited the last word)."""
    name = "value_error_lines"
    cluster = "Parse"

    MASTERS = [
        ("ints(size_max=2)", ["1", "2", "3", "4", "x", "None", "1.5"]),
        ("ints(size_min=3)", ["1", "2", "x"]),
        ("ints(size=2, value_max=5)", ["1", "7", "2", "3"]),
        ("floats(size_max=2, value_min=0)", ["1.5", "-2", "3", "0", "y"]),
        ("floats(size=3)", ["1", "2.5", "3", "4"]),
        ("int(value_min=2)", ["1", "3", "x", "4"]),
        ("float(value_max=1)", ["0.5", "2", "1e3", "z"]),
        ("bool", ["yes", "no", "maybe", "True"]),
        ("choice", ["a", "b", "*a", "zz", "*q"]),
        ("choice(multi=True)", ["a", "*b", "zz", "*a"]),
    ]

    def __init__(self, ctx):
        super().__init__(ctx)
        self.fp = import_freephil()
        self.m = {}

    def corpus(self):
        return [[0, "# settings\n\n", [["1", 0], ["2", 0], ["3", 1], ["4", 1]]],
                [4, "", [["1", 0], ["2", 1], ["3", 2], ["4", 0]]],
                [1, "\n", [["1", 1], ["2", 0]]],
                [8, "#c\n", [["a", 1], ["zz", 1]]]]

    def cases(self, rng, tier):
        for _ in range(1500 if tier == "quick" else 20000):
            k = rng.randrange(len(self.MASTERS))
            lead = "".join(rng.choice(["\n", "# c\n", " \n", "other = 1\n"]) for _ in range(rng.randint(0, 4)))
            pool = self.MASTERS[k][1]
            ws = [[rng.choice(pool), rng.choice([0, 0, 1, 1, 2])] for _ in range(rng.randint(1, 5))]
            yield [k, lead, ws]

    def text(self, case):
        k, lead, ws = case
        out, line = lead + "p =", 1 + lead.count("\n")
        lines = []
        for w, brk in ws:
            out += " " + w
            lines.append(line)
            for _ in range(brk):
                out += " \\\n   "
                line += 1
        # a trailing continuation would swallow the next line: close the value on a word
        if ws[-1][1]:
            out += " " + ws[0][0]
            lines.append(line)
        return out + "\nlast = 0\n", lines

    def master(self, k):
        if k not in self.m:
            t = self.MASTERS[k][0]
            dflt = "a b" if t.startswith("choice") else "None"
            self.m[k] = self.fp.parse("p = %s\n  .type = %s\nother = 0\nlast = 0\n" % (dflt, t))
        return self.m[k]

    def impl(self, case):
        text, lines = self.text(case)
        user = self.fp.parse(input_string=text)
        try:
            self.master(case[0]).fetch(source=user).extract()
        except (RuntimeError, self.fp.Sorry) as e:
            msg = str(e)
            tok = _TOKEN.search(msg)
            return ["err", exc_class(e), str(pc.err_line(msg)), tok.group(1) if tok else "", [str(l) for l in lines]]
        return ["ok"]

    def requests(self, case, o):
        return []

    def model(self, case, replies, o):
        return o

    def prop(self, case, o):
        if o[0] != "err" or o[2] == "0":
            return None
        cited, tok, lines = o[2], o[3], o[4]
        words = [w for w, _ in case[2]] + ([case[2][0][0]] if case[2][-1][1] else [])
        if tok:
            ok = set(l for w, l in zip(words, lines) if tok in w or w.lstrip("*") == tok)
            if cited in ok or not ok:
                return None
            return "the error names token %r, which stands on line(s) %s, but cites line %s" % (tok, sorted(ok), cited)
        if cited != lines[0]:
            return "the value error cites line %s; the offending value starts on line %s" % (cited, lines[0])
        return None

    def tag(self, case, o):
        return self.MASTERS[case[0]][0].split("(")[0] + ":" + o[0]
