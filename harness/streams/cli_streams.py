"""The command-line tool (freephil.cli.main, 'phil ...') as an observation point: what it prints is what the library
calls return.  Oracle-only streams shared by C08 (--diff) and C19 (--print_prefix, --show_* options)."""
import contextlib
import re
import io
import os
import shutil
import sys
import tempfile
import warnings

import layout as L
import vlib
from vlib import Stream, import_freephil


def run_cli(argv):
    from freephil import cli
    old = sys.argv
    out = io.StringIO()
    sys.argv = ["phil"] + argv
    try:
        with contextlib.redirect_stdout(out), warnings.catch_warnings():
            warnings.simplefilter("ignore")
            cli.main()
    finally:
        sys.argv = old
    return out.getvalue()


class CliPrefix(Stream):
    """phil [--show_help|--show_some_attributes|--show_all_attributes] [--print_width W] --print_prefix P file
    prints P.rstrip(), the tree exactly as as_str(prefix=P, attributes_level=a, print_width=W) gives it, P.rstrip()."""
    name = "cli_prefix"
    cluster = "Parse"
    PREFIXES = ["", "#", "# ", " prefix ", "    ", "\t", ">> ", "#phil", "a b"]
    LEVELS = [([], 0), (["--show_help"], 1), (["--show_some_attributes"], 2), (["--show_all_attributes"], 3)]

    def __init__(self, ctx):
        super().__init__(ctx)
        self.fp = import_freephil()

    def cases(self, rng, tier):
        for i in range(60 if tier == "quick" else 800):
            at = L.gen_atree(rng, rich=(i % 2 == 0), expert=True, maxn=3)
            yield {"doc": L.canonical_render(at), "prefix": rng.choice(self.PREFIXES), "lv": rng.randrange(4),
                   "width": rng.choice([None, None, 60, 100])}

    def impl(self, case):
        d = tempfile.mkdtemp(prefix="clip_")
        try:
            f = os.path.join(d, "in.phil")
            with open(f, "w") as fh:
                fh.write(case["doc"])
            try:
                t = self.fp.parse(file_name=f)
            except RuntimeError:
                return ["unparseable"]
            opts, lv = self.LEVELS[case["lv"]]
            argv = list(opts) + (["--print_width", str(case["width"])] if case["width"] else []) + ["--print_prefix=" + case["prefix"], f]
            p = case["prefix"]
            try:
                want = p.rstrip() + "\n" + t.as_str(prefix=p, attributes_level=lv, print_width=case["width"]) + p.rstrip() + "\n"
            except Exception as e:  # noqa   (a width too small for the attribute indentation: not this stream's business)
                return ["print-failed", vlib.exc_class(e)]
            got = run_cli(argv)
            if got == want:
                return ["ok"]
            gl, wl = got.split("\n"), want.split("\n")
            i = next((i for i, (a, b) in enumerate(zip(gl + [None], wl + [None])) if a != b), 0)
            return ["differs", i + 1, (gl + [None])[i], (wl + [None])[i]]
        finally:
            shutil.rmtree(d, ignore_errors=True)

    def requests(self, case, o):
        return []

    def model(self, case, replies, o):
        return o

    def prop(self, case, o):
        if o[0] == "differs":
            return "phil --print_prefix=%r: output line %d is %r, as_str(prefix=...) gives %r" % (case["prefix"], o[1], o[2], o[3])
        return None

    def tag(self, case, o):
        return o[0]


_PARENS = re.compile(r"(?<!\\)\$\((?:[A-Za-z_][A-Za-z_0-9]*\)[A-Za-z_0-9]|[^)]*\.[^)]*\))")


def needs_parens(text):
    """a $(NAME) reference directly followed by an identifier character, or with a dotted NAME: '$NAME...' means something else"""
    return _PARENS.search(text) is not None


class CliDiff(Stream):
    """phil --diff master user...  prints exactly master.fetch_diff(sources=users).as_str(): the printed difference, parsed and
    merged back, reproduces the working values (values with blanks before an inner line break, form feeds and other
    characters that str.splitlines() would split at)."""
    name = "cli_diff"
    cluster = "Idem"
    MASTER = ("job {\n  title = None\n    .type = str\n  header = None\n    .type = str\n  n = 1\n    .type = int\n  tags = None\n"
              "    .type = strings\n  res = 3.\n    .type = float\n  mode = *fast thorough\n    .type = choice\n}\n")
    VALUES = ['"Data set 7   \\nsecond crystal"', '"REMARK\x0cPAGE"', '"a\x0bb"', '"x\x1cy"', '"tab\t\\n  end  "', "plain", '"two  blanks"',
              '"  lead"', '"trail  "', '"\x85"', "None",
              # references to an environment variable (the stream defines VERIF_V): a difference keeps them textual
              '"$(VERIF_V)/model.pdb"', '"$VERIF_V/x"', "$VERIF_V", '"$(VERIF_V)_old"', "$(VERIF_V)2", '"pre $(VERIF_V)"', '"$(VERIF_V)bc d"']

    def __init__(self, ctx):
        super().__init__(ctx)
        self.fp = import_freephil()

    def corpus(self):
        return [{"users": ['job.title = "$(VERIF_V)_old/model.pdb"\n']}, {"users": ["job.n = 2\n", "job.header = $(VERIF_V)2\n"]},
                {"users": ['job.title = "$(VERIF_V)/model.pdb"\njob.header = $VERIF_V\n']},
                # the text after the reference comes from another variable that does resolve
                {"users": ['job.header = abc\njob.title = "$(VERIF_V)$(job.header)"\n']},
                {"users": ['job.header = _old\n', 'job.title = $VERIF_V$(job.header)/m.pdb\n']}]

    def cases(self, rng, tier):
        for _ in range(60 if tier == "quick" else 800):
            us = []
            for _ in range(rng.randint(1, 2)):
                lines = []
                if rng.random() < 0.8:
                    lines.append("job.title = %s" % rng.choice(self.VALUES).replace("\\n", "\n"))
                if rng.random() < 0.6:
                    lines.append("job.header = %s" % rng.choice(self.VALUES).replace("\\n", "\n"))
                if rng.random() < 0.5:
                    lines.append("job.n = %d" % rng.randint(1, 3))
                if rng.random() < 0.4:
                    lines.append("job.tags = %s %s" % (rng.choice(self.VALUES).replace("\\n", "\n"), rng.choice(['"q r"', "s"])))
                if rng.random() < 0.4:
                    lines.append("job.res = %s\njob.mode = %s" % (rng.choice(["2.5", "3.", "3.0"]), rng.choice(["fast", "thorough"])))
                us.append("\n".join(lines) + "\n")
            yield {"users": us}

    def impl(self, case):
        d = tempfile.mkdtemp(prefix="clid_")
        try:
            files = []
            for i, text in enumerate([self.MASTER] + case["users"]):
                f = os.path.join(d, "f%d.phil" % i)
                with open(f, "w", newline="") as fh:
                    fh.write(text)
                files.append(f)
            os.environ["VERIF_V"] = "/data/run7"
            try:
                master = self.fp.parse(file_name=files[0])
                users = [self.fp.parse(file_name=f) for f in files[1:]]
                want = master.fetch_diff(sources=users).as_str()
                w = master.fetch(sources=users).extract().job
            except RuntimeError:
                return ["refused"]
            got = run_cli(["--diff"] + files)
            if got != want:
                return ["differs", got[:300], want[:300]]
            try:
                r = master.fetch(source=self.fp.parse(input_string=got)).extract().job
            except RuntimeError as e:
                return ["unreadable", str(e)[:120], got[:300]]
            a = [w.title, w.header, w.n, w.tags, w.res, w.mode]
            b = [r.title, r.header, r.n, r.tags, r.res, r.mode]
            return ["ok"] if a == b else ["restores", repr(b)[:300], repr(a)[:300]]
        finally:
            os.environ.pop("VERIF_V", None)
            shutil.rmtree(d, ignore_errors=True)

    def requests(self, case, o):
        return []

    def model(self, case, replies, o):
        return o

    def prop(self, case, o):
        if o[0] == "differs":
            return "phil --diff prints %r, fetch_diff(...).as_str() is %r" % (o[1], o[2])
        if o[0] == "unreadable":
            return "the output of phil --diff cannot be merged back (%s): %r" % (o[1], o[2])
        if o[0] == "restores":
            return "merging the output of phil --diff back gives %s, the working values are %s" % (o[1], o[2])
        return None

    def tag(self, case, o):
        return o[0]
