"""C10 - extraction never yields a value outside the parameter's declared type.

Streams (cluster Conv = coq/theories/Model/Conv.v extracted):
  IntOfStr   model py_int_of_str  vs  Python int(s)      exhaustive short strings
  FloatOfInt model float_of_Z     vs  Python float(z)    boundaries 2^53 .. 2^1024
  NumCmp     model num_lt/num_le  vs  Python < and <=    mixed int/float/bool/inf/nan
  CtorInit   model number_init/numbers_init vs the converter constructors (asserts, size normalisation)
  FromWords  model from_words     vs  definition.extract on a typed definition; constructor-argument
             grid x value texts; eval is an oracle recorded from the implementation's own calls.
  AsWords    model as_words vs converter.as_words (the inverse direction, on which C09 / C16 theorems rest; kept in
             C10's SPEC to protect the shared Conv model); the "%.10g" texts are an oracle table built by the harness
"""
import builtins
import itertools
import json
import math
import re

import vlib
from vlib import Stream, exc_class, import_freephil, qcode

PNAME = "qzk"  # parameter name used in every document; must not occur in any message template


# ----------------------------------------------------------------------------- number codecs
def bigdec(n):
    """decimal text of an int without str() (CPython refuses > 4300 digits)."""
    if n < 0:
        return "-" + bigdec(-n)
    if n < 10 ** 4000:
        return str(n)
    hi, lo = divmod(n, 10 ** 2000)
    return bigdec(hi) + str(lo).rjust(2000, "0")


def hexint(n):
    return ("-%x" % -n) if n < 0 else "%x" % n


def unhex(s):
    return int(s, 16)


def flt_sx(x):
    if x != x:
        return ["nan"]
    if x == math.inf or x == -math.inf:
        return ["inf", x < 0]
    if x == 0:
        return ["nz"] if math.copysign(1.0, x) < 0 else ["f", "0", "0"]
    n, d = x.as_integer_ratio()
    e = -(d.bit_length() - 1)
    while n % 2 == 0:
        n //= 2
        e += 1
    assert math.ldexp(n, e) == x
    return ["f", bigdec(n), bigdec(e)]


def num_sx(v):
    """Python number -> wire form of Conv.num."""
    if type(v) is bool:
        return ["b", v]
    if type(v) is int:
        return ["i", hexint(v)]
    if type(v) is float:
        return flt_sx(v)
    raise vlib.HarnessError("not a plain number: %r" % type(v))


def optnum_sx(v):
    return [] if v is None else [num_sx(v)]


def optint_sx(v):
    if v is None:
        return []
    if type(v) is not int:
        raise vlib.HarnessError("size argument is not an int")
    return [v]


def canon_num(v):
    """observation form of a Python number"""
    if type(v) is bool:
        return "True" if v else "False"
    if type(v) is int:
        return bigdec(v)
    if type(v) is float:
        if v != v:
            return "nan"
        if v == math.inf:
            return "inf"
        if v == -math.inf:
            return "-inf"
        return v.hex()
    return "?" + type(v).__name__


def canon_val(v, fp):
    if v is None:
        return "None"
    if v is fp.Auto:
        return "Auto"
    if isinstance(v, list):
        return [canon_val(x, fp) for x in v]
    return canon_num(v)


def wire_num_canon(n):
    """reply form of Conv.num -> observation form"""
    k = n[0]
    if k == "i":
        return bigdec(unhex(n[1]))
    if k == "b":
        return "True" if n[1] == "1" else "False"
    if k == "nz":
        return (-0.0).hex()
    if k == "nan":
        return "nan"
    if k == "inf":
        return "-inf" if n[1] == "1" else "inf"
    if k == "f":
        m, e = int(n[1]), int(n[2])
        if m == 0:
            return (0.0).hex() if e == 0 else "BAD-FLOAT"
        if abs(m).bit_length() > 53 or e + abs(m).bit_length() > 1024 or e < -1074:
            return "BAD-FLOAT(%s,%s)" % (n[1], n[2])
        return math.ldexp(m, e).hex()
    return "BAD"


def wire_val_canon(v):
    k = v[0]
    if k == "none":
        return "None"
    if k == "auto":
        return "Auto"
    if k == "num":
        return wire_num_canon(v[1])
    if k == "list":
        return [wire_val_canon(x) for x in v[1:]]
    return "BAD"


def wire_num_float(n):
    """wire Conv.num -> Python number (for prop checks)"""
    c = wire_num_canon(n)
    return canon_to_py(c)


def canon_to_py(c):
    if c == "True":
        return True
    if c == "False":
        return False
    if c in ("nan", "inf", "-inf"):
        return float(c)
    if "x" in c:
        return float.fromhex(c)
    if len(c) > 4000:
        neg = c.startswith("-")
        d = c.lstrip("-")
        n = 0
        for i in range(0, len(d), 2000):
            ch = d[i:i + 2000]
            n = n * 10 ** len(ch) + int(ch)
        return -n if neg else n
    return int(c)


# ----------------------------------------------------------------------------- error kinds (harness side only)
KIND_TABLE = [
    (re.compile(r"One True or False value expected"), "NotBool"),
    (re.compile(r"as a numeric expression"), "NotNumeric"),
    (re.compile(r"as an integer expression"), "NotInteger"),
    (re.compile(r"as a floating-point expression"), "NotFloat"),
    (re.compile(r"element is less than the minimum"), "BelowMin"),
    (re.compile(r"element is greater than the maximum"), "AboveMax"),
    (re.compile(r"^Too many values"), "TooMany"),
    (re.compile(r"^Not enough values"), "NotEnough"),
    (re.compile(r"element cannot be None"), "ElementNone"),
    (re.compile(r"element cannot be Auto"), "ElementAuto"),
    (re.compile(r"cannot be None$"), "CannotBeNone"),
]


def err_obs(e):
    cls = exc_class(e)
    if cls != "RuntimeError":
        return ["err", cls, "", "-"]
    msg = str(e)
    kind = "?"
    for rx, k in KIND_TABLE:
        if rx.search(msg):
            kind = k
            break
    return ["err", cls, kind, "1" if PNAME in msg else "0"]


def model_res_obs(reply, conv, impl_obs):
    """driver reply of a `res` -> observation; the 'names the parameter' flag is the implementation's own."""
    if reply[0] == "ok":
        return ["ok", conv(reply[1])]
    if reply[0] == "uerr":
        named = impl_obs[3] if isinstance(impl_obs, list) and len(impl_obs) == 4 and impl_obs[0] == "err" else "1"
        return ["err", "RuntimeError", reply[1], named]
    if reply[0] == "crash":
        if reply[1] == "OracleMissing":
            # the model needed an eval answer the implementation never asked for: never an agreement
            return ["model-needs-oracle"]
        return ["err", "other:" + reply[1], "", "-"]
    return ["bad-reply", reply]


# ----------------------------------------------------------------------------- type specs
# a type spec is JSON: ["bool"] | ["int"|"float", lo, hi, allow_none] | ["ints"|"floats", size, smin, smax, lo, hi, ne, ae]
# bounds are Python source literals (or None), sizes ints (or None)
def printable_bounds(ty):
    """the bounds of the type are written back exactly by the printer: integral bounds for int / ints (printed with %d),
    bounds of at most 10 significant digits for float / floats (printed with %.10g) - the domain of C01's stream; a bound
    outside it (int(value_min=0.5), listed in DESIGN.md section 9) changes when the master is printed"""
    k = ty[0]
    if k == "bool":
        return True
    lo, hi = (ty[1], ty[2]) if k in ("int", "float") else (ty[4], ty[5])
    for b in (lo, hi):
        if b is None:
            continue
        try:
            v = eval(str(b), {"__builtins__": {}}, {})
        except Exception:  # noqa
            return False
        if k in ("int", "ints"):
            if isinstance(v, float) and (v != v or v in (float("inf"), float("-inf")) or v != int(v)):
                return False
        else:
            try:
                if float("%.10g" % v) != float(v):
                    return False
            except (OverflowError, ValueError):
                return False
    return True


def ty_text(ty):
    k = ty[0]
    if k == "bool":
        return "bool"
    args = []
    if k in ("int", "float"):
        _, lo, hi, an = ty
        if lo is not None:
            args.append("value_min=%s" % lo)
        if hi is not None:
            args.append("value_max=%s" % hi)
        args.append("allow_none=%s" % an)
    else:
        _, size, smin, smax, lo, hi, ne, ae = ty
        if size is not None:
            args.append("size=%d" % size)
        if smin is not None:
            args.append("size_min=%d" % smin)
        if smax is not None:
            args.append("size_max=%d" % smax)
        if lo is not None:
            args.append("value_min=%s" % lo)
        if hi is not None:
            args.append("value_max=%s" % hi)
        args.append("allow_none_elements=%s" % ne)
        args.append("allow_auto_elements=%s" % ae)
    return "%s(%s)" % (k, ", ".join(args))


def conv_wire(t):
    """converter instance (as the implementation built it) -> wire form of Conv.cty"""
    n = type(t).__name__
    if n == "bool_converters":
        return ["bool"]
    if n in ("int_converters", "float_converters"):
        return [n.split("_")[0], optnum_sx(t.value_min), optnum_sx(t.value_max), bool(t.allow_none)]
    if n in ("ints_converters", "floats_converters"):
        return [n.split("_")[0], optint_sx(t.size_min), optint_sx(t.size_max), optnum_sx(t.value_min),
                optnum_sx(t.value_max), bool(t.allow_none_elements), bool(t.allow_auto_elements)]
    raise vlib.HarnessError("unexpected converter %s" % n)


BOUNDS_Q = [(None, None), ("0", None), (None, "3"), ("0", "3"), ("-2.5", None), ("-2.5", "2.5"), ("3", "3"),
            (None, "-2"), ("1", "1e3"), ("2**53", None), ("-inf", "inf"), ("0.5", "10**30")]
# non-finite bounds are exercised at every tier, for int/float and for ints/floats
NONFINITE_BOUNDS = [("inf", None), (None, "-inf"), ("nan", None), (None, "nan"), ("-inf", None), (None, "inf")]
HUGE_BOUNDS = [("10**400", None), (None, "2**1024")]     # ints too large for a float, every tier
BOUNDS_Q = BOUNDS_Q + NONFINITE_BOUNDS + HUGE_BOUNDS
BOUNDS_T = BOUNDS_Q + [("True", None), (None, "0"), ("-3", "-1"), ("0.1", "0.1"), ("-0.0", "0.0"),
                       ("4", "2**0.5*4")]
SIZES_Q = [(None, None, None), (1, None, None), (2, None, None), (3, None, None), (None, 2, None), (None, None, 2),
           (None, 1, 3), (None, 2, 2)]
SIZES_T = SIZES_Q + [(4, None, None), (None, 3, None), (None, None, 1), (None, 1, 1), (None, 2, 4), (None, None, 4)]


def type_grid(tier):
    bq = BOUNDS_Q if tier == "quick" else BOUNDS_T
    sq = SIZES_Q if tier == "quick" else SIZES_T
    out = [["bool"]]
    for k in ("int", "float"):
        for lo, hi in bq:
            for an in (True, False):
                out.append([k, lo, hi, an])
    # lists: a slice of the bound pairs at quick tier, always including the non-finite ones
    lb = (bq[:6] + NONFINITE_BOUNDS + HUGE_BOUNDS) if tier == "quick" else bq
    for k in ("ints", "floats"):
        for size, smin, smax in sq:
            for i, (lo, hi) in enumerate(lb):
                for ne, ae in ((False, False), (True, False), (False, True), (True, True)):
                    # thin the full product deterministically: keep every combination of the flags with the
                    # first two bound pairs, one flag combination (rotating) with the others
                    if i >= 2 and (ne, ae) != [(False, False), (True, False), (False, True), (True, True)][(i + (size or 0) + (smin or 0) + (smax or 0)) % 4]:
                        continue
                    out.append([k, size, smin, smax, lo, hi, ne, ae])
    return out


# ----------------------------------------------------------------------------- value texts
INTS = ["0", "1", "2", "3", "4", "-1", "-3", "+5", "10", "1_000", "007", "-0", "12345678901234567890", "1000"]
FLOATS = ["1.5", "2.0", "-2.5", "1e3", "1E3", ".5", "5.", "1e-3", "0.1", "-0.0", "1e308", "4.0000000001", "2.5",
          "3.0", "0.0", "1e22", "1e23", "9007199254740993.0"]
EXPRS = ["4/2", "2**3", "1/3", "7//2", "(1+2)", "3*1.0", "2**0.5", "10%3", "-(-2)", "1/0", "2**-1", "sqrt(4)", "pi",
         "floor(2.5)", "ceil(2.5)", "abs(-3)", "1==1", "not 0", "(True)", "True+1", "1j", "'a'", "6/4", "1e3/1e3",
         "2**53+1", "float(2**53+1)", "(3)", "[3]", "-(3)", "1+1", "1 + 1", "int(2.5)", "1_0+1", "e", "2*(1+1)", "3/1"]
# expressions with an integral value that use Python's builtins next to the math names: accepted spellings (the value is fixed by Python)
ACCEPTED = ["abs(-3)", "int(2.5)", "round(7/2)", "max(2,3)*2", "min(4,9)", "len([1,2])", "sum([1,2])", "pow(2,5)", "divmod(7,2)[0]",
            "int(floor(2.5))", "abs(int(-7/2))"]
EXPRS = EXPRS + [x for x in ACCEPTED if x not in EXPRS]
HUGE = ["2**1023", "2**1024", "10**400", "-10**400", "1e999", "-1e999", "2**1024-2**970", "2**1024-2**970+2**969",
        "10**400/1", "1e308*10"]
SPECIAL = ["None", "none", "NONE", "nOnE", "Auto", "auto", "AUTO", "aUtO", "True", "true", "TRUE", "False", "false", "fAlSe",
           "yes", "Yes", "YES", "no", "No", "on", "ON", "off", "Off", "(None)", "( none )", "inf", "-inf", "nan", "-nan",
           "NaN", "Inf", "inf-inf", "inf*0", "1e999-1e999", "None None", "Auto 1", "1 None", "y", "t", "00", "01", "11"]
JUNK = ["sin", "[1,2", "1 +", "()", "[]", "[[]]", "(())", "( )", "abc", "$x", "1.2.3", "0x10", "0b11", "1e", "++1", "--1",
        "\xb2", "1\xa0", "\xa01", "\x1c1", "1\x1f", ",", ";", ",,", "(,)", "[;]", ")(", "][", "(1", "1)", "(1]", "[1)",
        "1,", ",1", "1__0", "_1", "1_", "+ 1", "\xe9", "1\xa02", "lambda: 1", "print", "{1}", "1 if 1 else 2", "-", "*", "=",
        # evaluation errors whose own text holds a '%' (the error message is built with %-formatting)
        "dict()['%s']", "getattr(1,'%d')", "int('%s')", "dict()['%(a)s']", "5%", "%", "1%0"]
# texts that are or become empty / unbalanced / operator-only (also for C16's converter stream)
EMPTYISH = ["()", "[]", "( )", "[ ]", "(())", "([])", "[()]", "[[]]", "( ( ) )", "((  ))", '""', "''", '" "', '"" ""', '"()"', "'[]'",
            '"( )"', "(", ")", "[", "]", "((", "))", "(]", "[)", "([)]", ")(", "][", "(1", "1)", "[1,2", "1,2]", "(1,(2)", "+", "-", "*", "/",
            "**", "=", "1 +", "* 1", "1 *", "+ +", "(+)", "[-]", ",", ";", ",;,", "(,)", "[;]", "inf", "-inf", "nan", "1e999", "-1e999",
            "10**400", "-10**400", "(inf)", "[nan]", "[1e999]", "(10**400)", "inf nan", "1e999,10**400"]
QUOTED = ['"1"', "'2'", '"None"', '"Auto"', '" 5 "', "'1' '2'", '"1,2"', '"1;2"', "'true'", '"yes"', '"1 " 2', '""', '" "',
          '"1" None', '"[1" "2]"', "'(1' 2)", '"1\\"2"', '"no ne"', '" True "', '" false "', '" Auto "', '" none "',
          '"\tauto\t"', "' TRUE'", '"None "', '" 1_0 "', '"\xa0AUTO\x1f"', '" yes "', '"on "']
BIGDIG = ["1" * 4300, "1" * 4301, "10**4299", "10**4300", "-10**4300", "10**4299+1.0"]

SEPS = [" ", ",", ", ", ";", " ; ", ",,", " ,", ";;", "  "]
WRAPS = [("", ""), ("(", ")"), ("[", "]"), ("([", "])"), ("[ ", " ]"), ("( ", " )"), ("((", "))"), ("[(", ")]"), (" (", ") "),
         ("(", "]"), ("[[", "]"), ("(", ""), ("", "]")]
LIST_ELEMS = ["1", "2", "3", "0", "-1", "-2.5", "1.5", "2.0", "4/2", "1e3", "None", "none", "Auto", "AUTO", "nan", "inf",
              "-inf", "true", "sin", "(1)", "[2]", "1/3", "2**3", "10", "0.5", "1_0", "(None)", "1e999", "10**400", "'a'"]


def recase(s, rng):
    return "".join(c.upper() if rng.random() < 0.5 else c.lower() for c in s)


def fixed_texts(tier):
    t = INTS + FLOATS + EXPRS + HUGE + SPECIAL + JUNK + QUOTED + EMPTYISH + ["", " ", "  1  ", "\t2"]
    # list forms, deterministic
    lists = []
    elems = [["1", "2"], ["1", "2", "3"], ["1"], [], ["1.5", "-2.5"], ["1", "None"], ["Auto", "2"], ["1", "2", "3", "4"],
             ["4/2", "1e3"], ["nan", "1"], ["-1", "0", "3"], ["1", "sin"], ["1", "1/3"], ["none", "auto", "1"], ["inf", "-inf"],
             ["2", "2"], ["10", "10", "10", "10", "10"]]
    for i, el in enumerate(elems):
        for j, sep in enumerate(SEPS):
            for k, (o, c) in enumerate(WRAPS):
                if tier == "quick" and (i + j + k) % 7 != 0 and not (j < 4 and k < 3 and i < 4):
                    continue
                lists.append(o + sep.join(el) + c)
    return t + lists


def random_text(rng):
    r = rng.random()
    if r < 0.15:
        return rng.choice(INTS + FLOATS)
    if r < 0.25:
        return rng.choice(EXPRS + HUGE)
    if r < 0.35:
        s = rng.choice(SPECIAL)
        return recase(s, rng) if rng.random() < 0.6 else s
    if r < 0.42:
        return rng.choice(JUNK + QUOTED + EMPTYISH)
    if r < 0.5:
        # small arithmetic expression
        a, b = rng.choice(INTS + FLOATS[:8]), rng.choice(["1", "2", "3", "4", "0.5", "2.0", "0"])
        op = rng.choice(["+", "-", "*", "/", "//", "%", "**", " + ", " * "])
        s = a + op + b
        if rng.random() < 0.3:
            s = "(" + s + ")"
        return s
    # list
    n = rng.choice([0, 1, 1, 2, 2, 2, 3, 3, 4, 5])
    el = [rng.choice(LIST_ELEMS) for _ in range(n)]
    if rng.random() < 0.7:
        sep = rng.choice(SEPS)
        body = sep.join(el)
    else:
        body = "".join(e + rng.choice(SEPS) for e in el)
    o, c = rng.choice(WRAPS) if rng.random() < 0.7 else ("", "")
    s = o + body + c
    if rng.random() < 0.1:
        s = rng.choice([" ", "\t", "\xa0", ""]) + s + rng.choice([" ", "", "\x1f"])
    if rng.random() < 0.05:
        s = '"' + s.replace('"', "") + '"'
    return s


_UNSAFE_DOC = re.compile(r"[\n;{}#'\"\\$!]")


def parse_safe(text):
    """value texts that mean the same inside a document  qzk = <text>  as in tokenize_value_literal"""
    return bool(text.strip()) and not _UNSAFE_DOC.search(text) and all(32 <= ord(c) < 127 for c in text) \
        and not text.lstrip().startswith("=")


def has_bounds(ty):
    if ty[0] in ("int", "float"):
        return ty[1] is not None or ty[2] is not None
    if ty[0] in ("ints", "floats"):
        return ty[4] is not None or ty[5] is not None
    return False


class EvalRecorder:
    """stands in for the name `eval` inside freephil.converters (module globals shadow builtins):
    records the result class of every call made by the implementation."""

    def __init__(self, fp):
        self.fp = fp
        self.tbl = {}

    def __call__(self, src, g=None, l=None):
        try:
            r = builtins.eval(src, g, l)
        except vlib.Timeout:
            raise
        except Exception:
            self.tbl[src] = ["raise"]
            raise
        self.tbl[src] = self.classify(r)
        return r

    def classify(self, r):
        if r is None:
            return ["none"]
        if r is self.fp.Auto:
            return ["auto"]
        if type(r) in (bool, int, float):
            return ["num", num_sx(r)]
        if isinstance(r, (int, float)):
            raise vlib.HarnessError("eval returned a number subclass %s" % type(r).__name__)
        return ["other"]


class FromWords(Stream):
    name = "from_words"
    cluster = "Conv"
    impl_timeout = 5.0

    def __init__(self, ctx):
        super().__init__(ctx)
        self.fp = import_freephil()
        from freephil import converters, tokenizer
        from freephil.tokens import tokenize_value_literal
        self.cv = converters
        self.tk = tokenizer
        self.tvl = tokenize_value_literal
        self.rec = EvalRecorder(self.fp)
        converters.eval = self.rec
        self.masters = {}
        self.copies = {}
        self.side = {}

    # -- generation
    def corpus(self):
        return [
            # former finding F6-nan (repaired in 67726f2): NaN with a bound must be refused now
            [["float", "0", "3", True], "nan", "v"],
            [["floats", 2, None, None, "0", None, False, False], "1 nan", "v"],
            [["float", None, "3", True], "nan", "v"],
            [["float", "nan", None, True], "1", "v"],         # a NaN bound refuses everything
            [["float", None, None, True], "nan", "v"],        # without bounds NaN is a float like any other
            [["int", None, None, True], "inf", "v"],          # repaired in 8adc407: NotInteger, no OverflowError
            [["int", None, None, True], "nan", "v"],          # likewise, no ValueError
            [["ints", None, None, None, None, None, False, False], "1 inf", "v"],
            [["float", None, None, True], "10**400", "v"],    # repaired in 7b2d749: NotFloat, no OverflowError
            [["floats", None, None, None, None, None, False, False], "1 10**400", "v"],
            [["ints", None, None, None, None, None, False, False], "()", "v"],    # empty after bracket stripping
            [["floats", None, None, None, None, None, False, False], "(( ))", "v"],
            [["ints", None, 1, None, None, None, False, False], '""', "v"],
            # former finding F21 (repaired in fb27147): the bound-violation message formats with hex()/str()
            [["int", None, "3", True], "10**4300", "v"],      # AboveMax (was ValueError from "%d")
            [["ints", None, None, None, "0", None, False, False], "1 -10**4300", "v"],   # BelowMin
            [["int", "inf", None, True], "3", "v"],           # BelowMin (was OverflowError from "%d" % inf)
            [["int", None, "-inf", True], "3", "v"],
            [["int", "nan", None, True], "3", "v"],
            [["ints", None, None, None, None, "nan", False, False], "1 2", "v"],
            # repaired in 74d055d: an int bound too large for a float prints as str()/hex() in the message
            [["float", "10**400", None, True], "1", "v"],     # BelowMin (was OverflowError from "%.10g")
            [["float", None, "10**400", True], "inf", "v"],   # AboveMax
            [["floats", None, None, None, "10**400", None, False, False], "1 2", "v"],
            [["float", "10**4300", None, True], "1", "v"],    # beyond the digit limit: hex()
            [["int", None, None, True], "(True)", "v"],       # eval gives a bool: returned as it is
            [["int", "0", "3", False], "4/2", "v"],
            [["int", "0", "3", False], "1e3", "v"],
            [["ints", 3, None, None, None, None, False, False], "[1, 2;3]", "v"],
            [["bool"], "", "w"],                              # empty word list: AssertionError
            [["int", None, None, True], "", "w"],             # empty word list: IndexError
            [["ints", 2, None, None, None, None, False, False], "", "w"],
            [["int", None, None, False], "", "v"],            # validate() supplies the word None
        ]

    def cases(self, rng, tier):
        grid = type_grid(tier)
        texts = fixed_texts(tier)
        if tier == "quick":
            # every type x a rotating slice of the fixed texts (each text meets several types of every family)
            stride = 7
            for ti, ty in enumerate(grid):
                for xi, tx in enumerate(texts):
                    if (xi + ti) % stride == 0 or ty[0] == "bool":
                        yield [ty, tx, "v"]
            nrand = 3000
        else:
            stride = 12
            for ti, ty in enumerate(grid):
                for xi, tx in enumerate(texts):
                    if (xi + ti) % stride == 0 or ty[0] == "bool":
                        yield [ty, tx, "v"]
            nrand = 80000
        ip, ib, fp_, il = (["int", None, None, True], ["int", None, "3", True], ["float", None, None, True],
                           ["ints", None, None, None, "0", None, False, False])
        big = [("1" * 4300, ip), ("1" * 4301, ip), ("1" * 4301, il), ("10**4299", ip), ("10**4299", ib), ("10**4299", fp_),
               ("10**4300", ip), ("10**4300", ib), ("10**4300", il), ("-10**4300", ib), ("-10**4300", il), ("10**4299+1.0", fp_)]
        if tier != "quick":
            big += [(tx, ty) for tx in BIGDIG for ty in (ip, ib, fp_, il)]
        for tx, ty in big:
            yield [ty, tx, "v"]
        # every empty-ish / unbalanced / operator-only / non-finite text meets every type family, with and without constraints
        reps = [["bool"], ["int", None, None, True], ["int", "0", "3", False], ["float", None, None, True], ["float", "0", "3", False],
                ["ints", None, None, None, None, None, False, False], ["ints", 2, None, None, "0", "3", True, True],
                ["ints", None, 1, None, None, None, False, False],
                ["floats", None, None, None, None, None, False, False], ["floats", 2, None, None, "0", "3", True, True],
                ["floats", None, None, 2, "0", None, False, False]]
        for ty in reps:
            for tx in EMPTYISH:
                yield [ty, tx, "v"]
                yield [ty, tx, "w"]
        for i in range(nrand):
            ty = rng.choice(grid)
            yield [ty, random_text(rng), "w" if i % 10 == 0 else "v"]

    # -- implementation
    def master(self, ty):
        k = json.dumps(ty)
        m = self.masters.get(k)
        if m is None:
            doc = self.fp.parse("%s = None\n.type = %s\n" % (PNAME, ty_text(ty)))
            m = doc.objects[0]
            self.masters[k] = m
        return m

    def run_extract(self, f):
        try:
            v = f()
        except vlib.Timeout:
            raise
        except Exception as e:  # noqa
            return err_obs(e)
        return ["ok", canon_val(v, self.fp)]

    def impl(self, case):
        ty, text, mode = case
        d = self.master(ty)
        key = json.dumps(case)
        self.rec.tbl = {}
        try:
            words = self.tvl(text, None)
        except RuntimeError:
            self.side[key] = None
            return ["tokenizer-refused"]
        if mode == "v" and len(words) == 0:
            words = [self.tk.word(value="None")]          # definition.try_tokenize
        a = self.run_extract(lambda: d.customized_copy(words=words).extract())
        self.side[key] = ([[w.value, qcode(w.quote_token), int(w.line_number or 0)] for w in words],
                          [[s, r] for s, r in self.rec.tbl.items()], conv_wire(d.type))
        if parse_safe(text):
            def viadoc():
                doc = self.fp.parse("%s = %s\n.type = %s\n" % (PNAME, text, ty_text(ty)))
                return doc.objects[0].extract()
            b = self.run_extract(viadoc)
            if a != b:
                return ["variants-differ", a, b]
        if ty[0] in ("ints", "floats") and parse_safe(text):
            # two parameters with the same type expression in one document (they share one converter object): an error about
            # the second names the second
            try:
                doc = self.fp.parse("q0 = None\n.type = %s\n%s = %s\n.type = %s\n" % (ty_text(ty), PNAME, text, ty_text(ty)))
                doc.objects[0].extract()
                doc.objects[1].extract()
            except RuntimeError as e:
                if "q0" in str(e).split("=")[0] or (PNAME not in str(e) and "q0" in str(e)):
                    return ["variants-differ", a, ["second-of-two-names-the-first", str(e)[:160]]]
            except Exception:  # noqa
                pass
        # the same definition after a pickle round trip / a deep copy (as freephil.interface and GUIs keep them): the declared
        # type, its bounds and allow_none travel with the copy
        k2 = json.dumps(ty)
        cps = self.copies.get(k2)
        if cps is None:
            import copy, pickle
            cps = self.copies[k2] = [pickle.loads(pickle.dumps(d)), copy.deepcopy(d)]
            # ... and after the master has been printed with its attributes and read again (phil --show_some_attributes,
            # change_default_phil_values, a master kept as text): the declared type is what was declared
            for lv in (2, 3):
                if not printable_bounds(ty):
                    cps.append(None)
                    continue
                try:
                    m0 = self.fp.parse("%s = None\n.type = %s\n" % (PNAME, ty_text(ty)))
                    cps.append(self.fp.parse(m0.as_str(attributes_level=lv)).objects[0])
                except Exception:  # noqa   (a type expression the printer cannot write back: C01's subject)
                    cps.append(None)
        for how, d2 in zip(("pickle", "deepcopy", "printed-level-2", "printed-level-3"), cps):
            if d2 is None:
                continue
            c = self.run_extract(lambda d2=d2: d2.customized_copy(words=words).extract())
            if c != a:
                return ["variants-differ", a, [how, c]]
        return a

    # -- model
    def requests(self, case, o):
        s = self.side.get(json.dumps(case))
        if s is None:
            return []
        words, tbl, tw = s
        return [("from_words", [tw, words, tbl])]

    def model(self, case, replies, o):
        if not replies:
            return o
        return model_res_obs(replies[0], wire_val_canon, o)

    # -- the property on the implementation
    def check_num(self, ty, c, is_int, lo, hi):
        if is_int:
            if not (re.fullmatch(r"-?\d+", c) or c in ("True", "False")):
                return "%s returned for an int" % c
        else:
            if not ("x" in c or c in ("inf", "-inf", "nan")):
                return "%s returned for a float" % c
        v = canon_to_py(c)
        if lo is not None and not (v >= self.bound(lo)):
            return "%s is below value_min=%s" % (c, lo)
        if hi is not None and not (v <= self.bound(hi)):
            return "%s is above value_max=%s" % (c, hi)
        return None

    def bound(self, lit):
        return builtins.eval(lit, dict(math.__dict__), {})

    def prop(self, case, o):
        ty, text, mode = case
        if o[0] in ("tokenizer-refused",):
            return None
        if o[0] == "variants-differ":
            return "the value extracts differently inside a document: %r vs %r" % (o[1], o[2])
        if o[0] == "impl-timeout":
            return "extraction did not return"
        if o[0] == "err":
            if o[1] == "RuntimeError" and o[3] != "1":
                return "RuntimeError does not name the parameter"
            if text in ACCEPTED and ty in (["int", None, None, True], ["float", None, None, True]):
                return "the numeric expression %r (value %r) was refused for an unbounded %s: %r" % (
                    text, builtins.eval(text, dict(math.__dict__), {}), ty[0], o)
            return None   # other exception classes are C16's subject
        v = o[1]
        k = ty[0]
        if k == "bool":
            return None if v in ("True", "False", "None", "Auto") else "%r returned for a bool" % (v,)
        if k in ("int", "float"):
            _, lo, hi, an = ty
            if v == "None":
                return None if an else "None returned although allow_none=False"
            if v == "Auto":
                return None
            if isinstance(v, list):
                return "a list returned for %s" % k
            return self.check_num(ty, v, k == "int", lo, hi)
        _, size, smin, smax, lo, hi, ne, ae = ty
        if size is not None:
            smin = smax = size
        if v in ("None", "Auto"):
            return None
        if not isinstance(v, list):
            return "%r returned for %s" % (v, k)
        if smin is not None and len(v) < smin:
            return "%d elements, size_min=%d" % (len(v), smin)
        if smax is not None and len(v) > smax:
            return "%d elements, size_max=%d" % (len(v), smax)
        for x in v:
            if x == "None":
                if not ne:
                    return "None element although allow_none_elements=False"
            elif x == "Auto":
                if not ae:
                    return "Auto element although allow_auto_elements=False"
            elif isinstance(x, list):
                return "nested list element"
            else:
                r = self.check_num(ty, x, k == "ints", lo, hi)
                if r:
                    return r
        return None

    def in_domain(self, case):
        ty, text, mode = case
        if mode == "w" and not text.strip():
            return False  # the parser never hands an empty word list to a converter
        return True

    def key(self, case, o):
        return json.dumps(case[:2]) if case[1].strip() else None

    def tag(self, case, o):
        if o[0] == "ok":
            v = o[1]
            what = "list%d" % len(v) if isinstance(v, list) else ("None" if v == "None" else "Auto" if v == "Auto" else "value")
            return "%s:ok:%s" % (case[0][0], what)
        if o[0] == "err":
            return "%s:%s" % (case[0][0], o[2] or o[1])
        return "%s:%s" % (case[0][0], o[0])

    def shrink(self, case):
        ty, text, mode = case
        for i in range(len(text)):
            yield [ty, text[:i] + text[i + 1:], mode]
        if ty[0] in ("int", "float"):
            if ty[1] is not None:
                yield [[ty[0], None, ty[2], ty[3]], text, mode]
            if ty[2] is not None:
                yield [[ty[0], ty[1], None, ty[3]], text, mode]
        elif ty[0] != "bool":
            for i in (1, 2, 3, 4, 5):
                if ty[i] is not None:
                    t2 = list(ty)
                    t2[i] = None
                    yield [t2, text, mode]

    def neighbours(self, case, rng):
        ty, text, mode = case
        yield from self.shrink(case)
        for tx in INTS + FLOATS + EXPRS[:12] + SPECIAL[:12] + ["1 2", "[1,2,3]", "1,2;3 4", "None 1", "nan", "inf"]:
            yield [ty, tx, mode]
        for t2 in type_grid("quick"):
            if t2[0] == ty[0]:
                yield [t2, text, mode]


# ----------------------------------------------------------------------------- int(str)
INT_ALPHA = ["0", "1", "9", "+", "-", "_", " ", "\n", "\x1c", "\x1f", "\x85", "\xa0", "a", "e", ".", "\x00"]


class IntOfStr(Stream):
    name = "int_of_str"
    cluster = "Conv"

    def corpus(self):
        return ["+5", " 5 ", "1_000", "0x10", "\xb2", "1__0", "_1", "1_", "+ 5", "\x1c5", "\x855\xa0", "5\x1f", "-0",
                "1" * 4301, "0" * 4300 + "1", "1_" * 4299 + "1", "1_" * 4300 + "1", " " * 9 + "-" + "7" * 4301,
                "\xb9", "\xb3", "5\x7f", "\x0b5\x0c", "+_1", "-1_0"]

    def cases(self, rng, tier):
        maxlen = 4 if tier == "quick" else 5
        for n in range(maxlen + 1):
            for t in itertools.product(INT_ALPHA, repeat=n):
                yield "".join(t)
        for i in range(3000 if tier == "quick" else 60000):
            n = rng.randint(5, 12)
            if i % 3 == 0:
                yield "".join(chr(rng.randrange(256)) for _ in range(n))
            else:
                yield "".join(rng.choice(INT_ALPHA[:8] + ["2", "3", "4"]) for _ in range(n))

    def impl(self, case):
        try:
            return ["ok", bigdec(int(case))]
        except ValueError:
            return ["refused"]

    def requests(self, case, o):
        return [("int_of_str", case)]

    def model(self, case, replies, o):
        r = replies[0]
        return ["ok", bigdec(unhex(r[0]))] if r else ["refused"]

    def key(self, case, o):
        return case if case else None

    def tag(self, case, o):
        return o[0]

    def shrink(self, case):
        for i in range(len(case)):
            yield case[:i] + case[i + 1:]


# ----------------------------------------------------------------------------- float(int)
class FloatOfInt(Stream):
    name = "float_of_int"
    cluster = "Conv"

    def corpus(self):
        return ["0", "1", "-1", str(2 ** 53), str(2 ** 53 + 1), str(2 ** 53 + 2), str(2 ** 53 + 3), str(2 ** 54 + 2), str(2 ** 54 + 6),
                str(2 ** 1024), str(2 ** 1024 - 1), str(2 ** 1024 - 2 ** 970), str(2 ** 1024 - 2 ** 970 + 2 ** 969),
                str(2 ** 1024 - 2 ** 970 + 2 ** 969 - 1), str(-(2 ** 1024 - 2 ** 970 + 2 ** 969)), str(10 ** 400)]

    def cases(self, rng, tier):
        n = 1 if tier == "quick" else 8
        for k in list(range(50, 70)) + [100, 521, 970, 1000, 1021, 1022, 1023, 1024, 1025, 1100]:
            for d in range(-5, 6):
                for sgn in (1, -1):
                    yield str(sgn * (2 ** k + d))
                    if k < 54:
                        continue
                    yield str(sgn * (2 ** k + d * 2 ** (k - 53)))
                    yield str(sgn * (2 ** k + d * 2 ** (k - 54)))
                    yield str(sgn * (2 ** k + d * 2 ** (k - 54) + 1))
                    yield str(sgn * (2 ** k + d * 2 ** (k - 54) - 1))
        for i in range(4000 * n):
            bits = rng.choice([10, 53, 54, 55, 60, 64, 80, 200, 1000, 1023, 1024, 1025])
            z = rng.getrandbits(bits)
            if i % 4 == 0 and bits > 56:
                # exact half-way patterns
                sh = bits - 54
                z = ((rng.getrandbits(53) | (1 << 52)) * 2 + 1) << sh
                z += rng.choice([0, 0, 1, -1])
            yield str(-z if i % 7 == 0 else z)

    def impl(self, case):
        try:
            return ["ok", canon_num(float(int(case)))]
        except OverflowError:
            return ["err", "other:OverflowError"]

    def requests(self, case, o):
        return [("float_of_int", hexint(int(case)))]

    def model(self, case, replies, o):
        r = replies[0]
        if r[0] == "ok":
            return ["ok", wire_num_canon(r[1])]
        return ["err", "other:" + r[1]] if r[0] == "crash" else ["bad", r]

    def tag(self, case, o):
        return o[0]


# ----------------------------------------------------------------------------- comparisons
CMP_POOL = ["0", "1", "-1", "True", "False", "3", "2**53", "2**53+1", "10**400", "-10**400", "0.0", "-0.0", "0.5", "-2.5", "2.5",
            "1.0", "3.0", "float(2**53)", "float(2**53)+2", "1e308", "-1e308", "5e-324", "inf", "-inf", "nan", "0.1", "1/3",
            "2**1024", "2**1023", "1e22", "10**22", "10**23", "1e23", "-3", "-3.0"]


class NumCmp(Stream):
    name = "num_cmp"
    cluster = "Conv"

    def cases(self, rng, tier):
        for a in CMP_POOL:
            for b in CMP_POOL:
                yield [a, b]

    def val(self, s):
        return builtins.eval(s, dict(math.__dict__), {})

    def impl(self, case):
        a, b = self.val(case[0]), self.val(case[1])
        return ["1" if a < b else "0", "1" if a <= b else "0"]

    def requests(self, case, o):
        return [("num_cmp", [num_sx(self.val(case[0])), num_sx(self.val(case[1]))])]

    def model(self, case, replies, o):
        return replies[0]


# ----------------------------------------------------------------------------- constructors
class CtorInit(Stream):
    name = "ctor_init"
    cluster = "Conv"

    def __init__(self, ctx):
        super().__init__(ctx)
        import_freephil()
        from freephil import converters
        self.cv = converters

    def cases(self, rng, tier):
        sizes = [None, 0, 1, 2, 3, -1]
        bounds = [(None, None), ("0", "3"), ("3", "0"), ("0", "0"), ("-2.5", None), ("nan", "1"), ("1", "nan"), ("-inf", "inf"),
                  ("True", "1"), ("2", "1.5")]
        for lo, hi in bounds:
            yield ["int", lo, hi]
            yield ["float", lo, hi]
        for size in sizes:
            for smin in sizes:
                for smax in sizes:
                    for lo, hi in bounds[:4]:
                        yield ["ints", size, smin, smax, lo, hi]
        for lo, hi in bounds:
            yield ["floats", None, 1, 2, lo, hi]

    def val(self, s):
        return None if s is None else builtins.eval(s, dict(math.__dict__), {})

    def impl(self, case):
        try:
            if case[0] in ("int", "float"):
                getattr(self.cv, case[0] + "_converters")(value_min=self.val(case[1]), value_max=self.val(case[2]))
                return ["ok", []]
            c = getattr(self.cv, case[0] + "_converters")(size=case[1], size_min=case[2], size_max=case[3],
                                                          value_min=self.val(case[4]), value_max=self.val(case[5]))
            return ["ok", vlib.canon([optint_sx(c.size_min), optint_sx(c.size_max)])]
        except AssertionError:
            return ["err", "other:AssertionError"]

    def requests(self, case, o):
        if case[0] in ("int", "float"):
            return [("init", [case[0], optnum_sx(self.val(case[1])), optnum_sx(self.val(case[2])), True])]
        return [("init", [case[0], optint_sx(case[1]), optint_sx(case[2]), optint_sx(case[3]),
                          optnum_sx(self.val(case[4])), optnum_sx(self.val(case[5])), False, False])]

    def model(self, case, replies, o):
        r = replies[0]
        if r[0] == "ok":
            return ["ok", r[1]]
        return ["err", "other:" + r[1]] if r[0] == "crash" else ["bad", r]

    def tag(self, case, o):
        return case[0] + ":" + o[0]


# ----------------------------------------------------------------------------- as_words (for C09 / C16; not in SPEC)
class AsWords(Stream):
    name = "as_words"
    cluster = "Conv"

    def __init__(self, ctx):
        super().__init__(ctx)
        self.fp = import_freephil()
        self.masters = {}

    master = FromWords.master

    VALUES = ["None", "Auto", "0", "1", "-7", "True", "False", "2.5", "-2.5", "0.0", "-0.0", "1e22", "1e-7", "1/3", "inf", "-inf",
              "nan", "10**400", "2.7", "-2.7", "1e308", "[1]", "[]", "[1, 2]", "[1, 2, 3]", "[1.5, None]",
              "[Auto, 1]", "[None]", "[2.5, -1]", "[nan]", "[inf, 1]", "[[1]]", "[True, 0]", "[10**400]", "[1, 2, 3, 4]", "[0.1, 3]"]

    HUGE_VALUES = ["10**4299", "10**4300", "-10**4300", "[10**4299]", "[1, 10**4300]"]

    def corpus(self):
        return [
            # former finding (repaired in 2de8c99): a None / Auto element of a bounded list is written, no TypeError
            [["ints", None, None, None, "0", None, True, False], "[1, None]"],
            [["floats", None, None, None, None, "5", False, True], "[Auto, 2.5]"],
            [["ints", None, None, None, "0", None, False, False], "[1, None]"],      # ElementNone refusal
            # repaired in b77ba3d: scalar values are checked against the bounds before they are written
            [["int", "0", "3", True], "99"],
            [["float", "0", "3", True], "nan"],
            [["int", "0", "3", True], "2"],
            # repaired in fb27147 / 74d055d: texts of huge and non-finite numbers
            [["int", None, None, True], "10**4300"],
            [["int", None, None, True], "inf"],
            [["float", None, None, True], "10**400"],
            [["floats", None, None, None, None, None, False, False], "[10**4300]"],
            [["ints", None, None, None, None, None, False, False], "[[1]]"],         # nested list: TypeError
            [["int", None, None, True], "[1]"],
            [["ints", None, None, None, None, None, False, False], "1"],
        ]

    # must-pass texts of the former witnesses
    EXPECT = {
        json.dumps([["ints", None, None, None, "0", None, True, False], "[1, None]"]): ["1", "None"],
        json.dumps([["floats", None, None, None, None, "5", False, True], "[Auto, 2.5]"]): ["Auto", "2.5"],
        json.dumps([["int", "0", "3", True], "2"]): ["2"],
    }

    def prop(self, case, o):
        """writing either succeeds or refuses with RuntimeError (class only); the former witnesses format as recorded"""
        want = self.EXPECT.get(json.dumps(case))
        if want is not None and (o[0] != "ok" or [w[0] for w in o[1]] != want):
            return "as_words gave %r, expected the words %r" % (o, want)
        return None

    def cases(self, rng, tier):
        grid = type_grid(tier)
        for ti, ty in enumerate(grid):
            for vi, v in enumerate(self.VALUES):
                # quick: every value meets every third type of the grid (rotating), thorough: the full product
                if tier != "quick" or (ti + vi) % 3 == 0:
                    yield [ty, v]
        reps = (["int", None, None, True], ["int", "0", None, True], ["float", None, None, True],
                ["ints", None, None, None, None, None, False, False], ["ints", None, None, None, None, "3", False, False],
                ["floats", None, None, None, None, None, False, False])
        if tier == "quick":
            # decimal text of a 4300-digit integer costs the extracted model about a second: one such case only
            yield [reps[0], "10**4299"]
            for ty in reps:
                yield [ty, "10**4300"]
        else:
            for ty in reps:
                for v in self.HUGE_VALUES:
                    yield [ty, v]

    def val(self, s):
        g = dict(math.__dict__)
        g["Auto"] = self.fp.Auto
        return builtins.eval(s, g, {})

    def to_wire(self, v):
        if v is None:
            return ["none"]
        if v is self.fp.Auto:
            return ["auto"]
        if isinstance(v, list):
            return ["list"] + [self.to_wire(x) for x in v]
        return ["num", num_sx(v)]

    def floats_in(self, v, ty, d):
        """every float whose %.10g text the model may ask for"""
        out = []
        seq = v if isinstance(v, list) else [v]
        t = d.type
        for x in list(seq) + [getattr(t, "value_min", None), getattr(t, "value_max", None)]:
            if isinstance(x, (int, float)) and not isinstance(x, list):
                try:
                    f = float(x)
                except OverflowError:
                    continue
                out.append([flt_sx(f), "%.10g" % f])
        return out

    def impl(self, case):
        ty, vs = case
        d = self.master(ty)
        v = self.val(vs)
        try:
            ws = d.type.as_words(python_object=v, master=d)
        except Exception as e:  # noqa
            return err_obs(e)[:3]
        return ["ok", [[w.value, qcode(w.quote_token), "0"] for w in ws]]

    def requests(self, case, o):
        ty, vs = case
        d = self.master(ty)
        v = self.val(vs)
        return [("as_words", [conv_wire(d.type), self.to_wire(v), self.floats_in(v, ty, d)])]

    def model(self, case, replies, o):
        return model_res_obs(replies[0], lambda ws: ws, o)[:3]

    def tag(self, case, o):
        return case[0][0] + ":" + (o[0] if o[0] == "ok" else (o[2] or o[1]))


SPEC = {
    "clusters": ["Conv"],
    "streams": [IntOfStr, FloatOfInt, NumCmp, CtorInit, FromWords, AsWords],
    "rule": "from_words: constructor-argument grid (bool; int/float x value_min/value_max pairs x allow_none; ints/floats x "
            "size/size_min/size_max x bounds x allow_none_elements/allow_auto_elements) x value texts (fixed grammar list rotated over "
            "the grid, plus seeded random texts: numbers, arithmetic, separators, brackets, None/Auto/True/False/yes/no in random case, "
            "inf/nan/1e999, huge ints, junk, quoted words); distinct = distinct (type, text), non-trivial = non-blank text. "
            "int_of_str: all strings to length 4 (quick) / 5 (thorough) over a 16-symbol alphabet + random; float_of_int: 2^k +- d around "
            "every rounding boundary 2^50..2^1100 + random; num_cmp: all pairs of a 35-value pool; ctor_init: size/bounds grid; "
            "as_words: type grid x 38 Python values (None, Auto, ints, bools, floats incl. -0.0/inf/nan, huge ints, lists with None/Auto/nested "
            "elements; quick: every third pair)",
    "trusted": ["Oracle: eval(value_string, math.__dict__, {}) - recorded from the implementation's own calls (the name eval is "
                "rebound in module freephil.converters to a recording wrapper for the duration of the run) and supplied to the model as a table",
                "Modelled: converters.py bool_from_words, str_from_words, number_from_value_string, number(s)_from_words, "
                "int/float_from_number, int/float_from_words, _check_value, _check_size, from_words of bool/int/float/ints/floats, "
                "tokens.is_plain_none/auto; CPython int(str), float(int), int/float comparison (each compared directly on every run)",
                "Words are produced by the implementation's tokenize_value_literal / parser (tokenizer not modelled in this check)"],
    "modelled": "converters modelled by hand in coq/theories/Model/Conv.v; eval is an oracle; tokenizer/parser exercised only on the implementation side",
    "assumptions": ["text restricted to code points < 256", "eval returns (no eval bombs generated; every call under a 5 s alarm)",
                    "constructor arguments are plain numbers (int, float, bool) or None; sizes are ints",
                    "word lists handed to a converter are non-empty (the parser and validate() guarantee it)"],
}
