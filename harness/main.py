"""Entry point: main.py <property-id> [--tier quick|thorough] [--replay FILE]"""
import argparse
import importlib
import os
import sys
import traceback

sys.path.insert(0, os.path.dirname(os.path.abspath(__file__)))
sys.path.insert(0, os.path.join(os.path.dirname(os.path.abspath(__file__)), "streams"))
sys.setrecursionlimit(10000)

import vlib  # noqa


def main():
    ap = argparse.ArgumentParser()
    ap.add_argument("pid")
    ap.add_argument("--tier", default=os.environ.get("VERIF_TIER", "quick"))
    ap.add_argument("--replay", default=None)
    a = ap.parse_args()
    if a.tier not in ("quick", "thorough"):
        a.tier = "quick"
    seed = int(os.environ.get("VERIF_SEED", "0") or 0)
    try:
        mod = importlib.import_module(a.pid.lower())
        rc = vlib.run_check(a.pid, mod.SPEC, a.tier, seed, replay=a.replay)
    except vlib.HarnessError as e:
        print("ERROR harness: %s" % e)
        rc = 2
    except Exception:
        traceback.print_exc()
        print("ERROR harness: unexpected exception")
        rc = 2
    sys.exit(rc)


main()
