(* Generic line-protocol driver around the extracted model.
   Request : <op> <sexp>\n      Reply : <sexp>\n
   sexp    : '(' items ')' | 'x' hexdigits        (items separated by single blanks)
   The extracted module is Ops.M; Ops.ops maps op names to functions sx -> sx.
   ascii is the extracted 8-boolean constructor (ExtrOcamlBasic only, no Extract Constant). *)
open Ops
open M

let ascii_of_int n =
  let b i = (n lsr i) land 1 = 1 in
  Ascii (b 0, b 1, b 2, b 3, b 4, b 5, b 6, b 7)
let int_of_ascii (Ascii (a,b,c,d,e,f,g,h)) =
  let v x i = if x then 1 lsl i else 0 in
  v a 0 + v b 1 + v c 2 + v d 3 + v e 4 + v f 5 + v g 6 + v h 7

let hexval c = match c with
  | '0'..'9' -> Char.code c - 48 | 'a'..'f' -> Char.code c - 87 | 'A'..'F' -> Char.code c - 55
  | _ -> failwith "hex"

(* parse one sexp from s starting at i; returns (value, next index) *)
let rec parse_sx s i =
  match s.[i] with
  | 'x' ->
    let j = ref (i+1) in
    let acc = ref [] in
    while !j + 1 < String.length s && (match s.[!j] with '0'..'9'|'a'..'f'|'A'..'F' -> true | _ -> false) do
      acc := ascii_of_int (hexval s.[!j] * 16 + hexval s.[!j+1]) :: !acc;
      j := !j + 2
    done;
    (SA (List.rev !acc), !j)
  | '(' ->
    let j = ref (i+1) in
    let acc = ref [] in
    let fin = ref false in
    while not !fin do
      (match s.[!j] with
       | ')' -> fin := true; incr j
       | ' ' -> incr j
       | _ -> let (v, k) = parse_sx s !j in acc := v :: !acc; j := k)
    done;
    (SL (List.rev !acc), !j)
  | _ -> failwith "sexp"

let hexdigits = "0123456789abcdef"
let rec print_sx buf x =
  match x with
  | SA l ->
    Buffer.add_char buf 'x';
    List.iter (fun a -> let n = int_of_ascii a in
                Buffer.add_char buf hexdigits.[n lsr 4]; Buffer.add_char buf hexdigits.[n land 15]) l
  | SL l ->
    Buffer.add_char buf '(';
    List.iteri (fun i y -> if i > 0 then Buffer.add_char buf ' '; print_sx buf y) l;
    Buffer.add_char buf ')'

let () =
  let buf = Buffer.create 65536 in
  (try
    while true do
      let line = input_line stdin in
      let sp = String.index line ' ' in
      let op = String.sub line 0 sp in
      let (arg, _) = parse_sx line (sp+1) in
      Buffer.clear buf;
      (match List.assoc_opt op ops with
       | Some f -> (try print_sx buf (f arg) with Stack_overflow -> Buffer.clear buf; Buffer.add_string buf "!stackoverflow")
       | None -> Buffer.add_string buf "!unknown-op");
      Buffer.add_char buf '\n';
      print_string (Buffer.contents buf);
      flush stdout
    done
  with End_of_file -> ())
