#!/usr/bin/env python3
"""confirm_seed.py <seed_dir> <seed_id> <property> [check ids...]
Confirms a seeded change (patch.diff + demo.py) in a scratch worktree of /repo HEAD (tests still pass, the demo
fails with it and passes without), runs the registered quick checks against that worktree
(VERIF_IMPL_SRC=<worktree>/src; the same code path as the default /repo/src; evidence redirected), and stores
the change under /verif/seeded/<seed_id>/.  /repo itself is not touched."""
import json, os, shutil, subprocess, sys, re
seed_dir, seed_id, prop = sys.argv[1:4]
checks = sys.argv[4:] or [prop]
wt = "/tmp/confirm_%s" % seed_id
def sh(cmd, **kw):
    return subprocess.run(cmd, shell=True, stdout=subprocess.PIPE, stderr=subprocess.STDOUT, text=True, **kw)
sh("git -C /repo worktree remove --force %s" % wt)
r = sh("git -C /repo worktree add -q %s HEAD" % wt); assert r.returncode == 0, r.stdout
res = {"property": prop}
det = {}
try:
    d0 = sh("cd /tmp && PYTHONPATH=%s/src PYTHONHASHSEED=0 /venv/bin/python -W ignore %s/demo.py" % (wt, seed_dir))
    r = sh("git -C %s apply %s/patch.diff" % (wt, seed_dir)); assert r.returncode == 0, "patch does not apply: " + r.stdout
    env = "PYTHONPATH=%s/src PYTHONHASHSEED=0" % wt
    t = sh("cd %s && %s /venv/bin/python -m pytest -q -p no:cacheprovider 2>&1 | tail -4" % (wt, env))
    m = re.search(r"(\d+) failed, (\d+) passed", t.stdout)
    res["tests_with_change"] = t.stdout.strip().split("\n")[-1]
    failed = re.findall(r"FAILED (\S+)", t.stdout)
    ok_tests = m and m.group(2) == "38" and set(x.split("::")[-1] for x in failed) <= {"test_type_constructors", "test_definition_validate_etc"}
    d1 = sh("cd /tmp && %s /venv/bin/python -W ignore %s/demo.py" % (env, seed_dir))
    res["demo_with_change_rc"] = d1.returncode
    res["demo_without_change_rc"] = d0.returncode
    res["demo_output_with_change"] = d1.stdout[-600:]
    confirmed = bool(ok_tests and d1.returncode != 0 and d0.returncode == 0)
    res["confirmed"] = confirmed
    if confirmed:
        for c in checks:
            o = sh("cd /verif && VERIF_IMPL_SRC=%s/src VERIF_EVIDENCE_DIR=/tmp/confirm_evidence_%s ./check %s --tier quick" % (wt, seed_id, c))
            v = [l for l in o.stdout.split("\n") if l.startswith("VIOLATION")]
            det[c] = {"rc": o.returncode, "violation_lines": v}
finally:
    sh("git -C /repo worktree remove --force %s" % wt)
    sh("rm -rf /tmp/confirm_evidence_%s" % seed_id)
res["detected_by"] = det
print(json.dumps(res, indent=1))
if res.get("confirmed"):
    out = "/verif/seeded/%s" % seed_id
    os.makedirs(out, exist_ok=True)
    shutil.copy(seed_dir + "/patch.diff", out + "/patch.diff")
    shutil.copy(seed_dir + "/demo.py", out + "/demo.py")
    meta = json.load(open(seed_dir + "/meta.json")) if os.path.exists(seed_dir + "/meta.json") else {}
    meta.update({"property": prop, "confirmation": {k: res[k] for k in ("tests_with_change", "demo_with_change_rc", "demo_without_change_rc")},
                 "what_i_ran": "scratch worktree of /repo HEAD + patch: pytest (38 pass, the 2 baseline failures only); demo.py with and without the change; "
                               "then the registered quick checks with the implementation taken from that worktree (VERIF_IMPL_SRC) for: " + ", ".join(checks),
                 "detected_by": {c: ("yes" if d["rc"] == 1 and d["violation_lines"] else "NO") + " " + " ".join(d["violation_lines"]) for c, d in det.items()}})
    json.dump(meta, open(out + "/meta.json", "w"), indent=1)
