#!/usr/bin/env python3
"""Re-applies every seeded change under /verif/seeded (each in its own scratch worktree of /repo HEAD, removed
afterwards; /repo itself is not touched) and re-runs the checks recorded as catching it with VERIF_IMPL_SRC
pointing at that worktree.  Updates meta.json ("recheck": {...}).  usage: recheck_seeds.py [-j N] [seed ids...]"""
import json, os, subprocess, glob, sys, concurrent.futures as cf
def sh(c): return subprocess.run(c, shell=True, stdout=subprocess.PIPE, stderr=subprocess.STDOUT, text=True)
args = sys.argv[1:]
jobs = 4
if args[:1] == ["-j"]:
    jobs = int(args[1]); args = args[2:]
head = sh("git -C /repo log --format=%h -1").stdout.strip()
def one(d):
    sid = os.path.basename(d)
    meta = json.load(open(d + "/meta.json"))
    checks = [c for c, v in meta.get("detected_by", {}).items() if v.startswith("yes")] or [meta["property"]]
    wt = "/tmp/recheck_%s" % sid
    sh("git -C /repo worktree remove --force %s" % wt)
    r = sh("git -C /repo worktree add -q %s HEAD" % wt)
    assert r.returncode == 0, r.stdout
    try:
        r = sh("git -C %s apply %s/patch.diff" % (wt, d))
        if r.returncode != 0:
            meta["recheck"] = {"repo_head": head, "applies": False,
                               "note": "patch no longer applies to the current /repo HEAD (the code it touched was changed by a later fix: commit)"}
            out = "%s DOES NOT APPLY" % sid
        else:
            env = "PYTHONPATH=%s/src PYTHONHASHSEED=0" % wt
            demo = sh("cd /tmp && %s /venv/bin/python -W ignore %s/demo.py" % (env, d))
            res = {}
            for c in checks:
                o = sh("cd /verif && VERIF_IMPL_SRC=%s/src VERIF_EVIDENCE_DIR=/tmp/recheck_evidence_%s ./check %s --tier quick" % (wt, sid, c))
                res[c] = "caught" if (o.returncode == 1 and "VIOLATION" in o.stdout) else "NOT CAUGHT (rc %d)" % o.returncode
            meta["recheck"] = {"repo_head": head, "applies": True, "demo_rc_with_change": demo.returncode, "checks": res}
            out = "%s demo_rc %d %s" % (sid, demo.returncode, res)
    finally:
        sh("git -C /repo worktree remove --force %s" % wt)
        sh("rm -rf /tmp/recheck_evidence_%s" % sid)
    json.dump(meta, open(d + "/meta.json", "w"), indent=1)
    return out
ds = [d for d in sorted(glob.glob("/verif/seeded/*")) if not args or os.path.basename(d) in args]
with cf.ThreadPoolExecutor(max_workers=jobs) as ex:
    for o in ex.map(one, ds):
        print(o, flush=True)
