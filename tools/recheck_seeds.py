#!/usr/bin/env python3
"""Re-applies every seeded change under /verif/seeded to /repo (one at a time, reverted afterwards) and re-runs the
checks that are recorded as catching it.  Updates meta.json ("recheck": {...})."""
import json, os, subprocess, glob, sys
def sh(c): return subprocess.run(c, shell=True, stdout=subprocess.PIPE, stderr=subprocess.STDOUT, text=True)
assert sh("git -C /repo status --porcelain").stdout.strip() == "", "/repo not clean"
head = sh("git -C /repo log --format=%h -1").stdout.strip()
only = sys.argv[1:]
for d in sorted(glob.glob("/verif/seeded/*")):
    sid = os.path.basename(d)
    if only and sid not in only: continue
    meta = json.load(open(d + "/meta.json"))
    checks = [c for c, v in meta.get("detected_by", {}).items() if v.startswith("yes")] or [meta["property"]]
    r = sh("git -C /repo apply --check %s/patch.diff" % d)
    if r.returncode != 0:
        meta["recheck"] = {"repo_head": head, "applies": False, "note": "patch no longer applies to the current /repo HEAD (the code it touched was changed by a later fix: commit)"}
        print(sid, "DOES NOT APPLY")
    else:
        sh("git -C /repo apply %s/patch.diff" % d)
        res = {}
        try:
            demo = sh("cd /tmp && PYTHONPATH=/repo/src PYTHONHASHSEED=0 /venv/bin/python -W ignore %s/demo.py" % d)
            for c in checks:
                o = sh("cd /verif && ./check %s --tier quick" % c)
                res[c] = "caught" if (o.returncode == 1 and "VIOLATION" in o.stdout) else "NOT CAUGHT (rc %d)" % o.returncode
        finally:
            sh("git -C /repo checkout -- .")
        meta["recheck"] = {"repo_head": head, "applies": True, "demo_rc_with_change": demo.returncode, "checks": res}
        print(sid, "demo_rc", demo.returncode, res)
    json.dump(meta, open(d + "/meta.json", "w"), indent=1)
assert sh("git -C /repo status --porcelain").stdout.strip() == ""
