import sys, random, json, collections
sys.path.insert(0,'/verif/harness'); sys.path.insert(0,'/verif/harness/streams')
import vlib, parse_common as pc, layout as L
fp = vlib.import_freephil()
rng = random.Random(int(sys.argv[1]) if len(sys.argv)>1 else 0)
N = int(sys.argv[2]) if len(sys.argv)>2 else 2000
bad=0; badl=0; hist=collections.Counter()
for i in range(N):
    at = L.gen_atree(rng)
    text, exp, h = L.render(rng, at)
    hist.update(h)
    o, orc = pc.impl_parse(fp, text)
    if o[0] != "ok":
        bad+=1
        if bad<=5: print("PARSE FAIL", repr(text), o)
        continue
    got = [vlib.strip_tree(t, keep_line=True) for t in o[1]]
    if [L.strip_lines(t) for t in got] != [L.strip_lines(t) for t in exp]:
        bad+=1
        if bad<=5: print("STRUCT", repr(text)); print(" got", json.dumps([L.strip_lines(t) for t in got])[:500]); print(" exp", json.dumps([L.strip_lines(t) for t in exp])[:500])
        continue
    gl = [x for t in got for x in L.lines_only(t)]; el = [x for t in exp for x in L.lines_only(t)]
    if gl != el:
        badl+=1
        if badl<=5: print("LINES", repr(text)); print(" got", gl); print(" exp", el)
print(N, "struct-bad", bad, "line-bad", badl); print(hist)
