import sys, random, json, collections
sys.path.insert(0,'/verif/harness'); sys.path.insert(0,'/verif/harness/streams')
sys.setrecursionlimit(10000)
import vlib, parse_common as pc
fp = vlib.import_freephil()
rng = random.Random(int(sys.argv[1]) if len(sys.argv)>1 else 0)
N = int(sys.argv[2]) if len(sys.argv)>2 else 2000
cases=[]; reqs=[]; obs=[]
while len(cases) < N:
    d = pc.gen_doc(rng, good=True)
    try: t = fp.parse(d)
    except Exception: continue
    lvl = rng.choice([0,1,2,3]); w = rng.choice([None, 25, 30, 40, 79, 1000]); ex = rng.choice([None,-1,0,1,2,5]); prefix=rng.choice(["","  ","# "])
    try:
        o = ["ok", t.as_str(prefix=prefix, expert_level=ex, attributes_level=lvl, print_width=w)]
    except Exception as e:
        o = ["err", vlib.exc_class(e)]
    cases.append((d,lvl,w,ex,prefix)); obs.append(o)
    reqs.append(("show", [vlib.objs_sx(t), prefix, [] if ex is None else [ex], lvl, [] if w is None else [w]]))
rep = vlib.Driver("Parse").pbatch(reqs)
bad=0; unm=0
for c,o,r in zip(cases,obs,rep):
    if r[0]=="uerr" and r[1]=="Unmodelled": unm+=1; continue
    m = ["ok", r[1]] if r[0]=="ok" else ["err", "other:"+r[1] if r[0]=="crash" else "RuntimeError"]
    if m != o:
        bad+=1
        if bad<=6: print("CASE", repr(c)); print(" impl ", json.dumps(o)[:700]); print(" model", json.dumps(m)[:700])
print("cases",N,"bad",bad,"unmodelled",unm, "errs", sum(1 for o in obs if o[0]!='ok'))
