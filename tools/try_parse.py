import sys, random, json, collections
sys.path.insert(0,'/verif/harness'); sys.path.insert(0,'/verif/harness/streams')
sys.setrecursionlimit(10000)
import vlib, parse_common as pc
fp = vlib.import_freephil()
rng = random.Random(int(sys.argv[1]) if len(sys.argv)>1 else 0)
N = int(sys.argv[2]) if len(sys.argv)>2 else 3000
docs=[]
for i in range(N):
    r = i % 4
    if r == 0: d = pc.gen_soup(rng)
    elif r == 1: d = pc.mutate(rng, pc.gen_doc(rng))
    else: d = pc.gen_doc(rng, good=(i%8<6))
    docs.append(d)
obs=[]; reqs=[]
for d in docs:
    o, orc = vlib.with_alarm(5, pc.impl_parse, fp, d)
    obs.append(o); reqs.append(("parse",[orc,d]))
rep = vlib.Driver("Parse").pbatch(reqs)
bad=0; unm=0; kinds=collections.Counter()
for d,o,r in zip(docs,obs,rep):
    m = pc.model_parse_obs(r)
    kinds[o[0] if o[0]=='ok' else o[1]+':'+o[2]]+=1
    if m == "UNMODELLED": unm+=1; continue
    if m != o:
        bad+=1
        if bad<=8:
            print("DOC", repr(d)); print(" impl ", json.dumps(o)[:600]); print(" model", json.dumps(m)[:600])
print("cases",N,"bad",bad,"unmodelled",unm); print(kinds.most_common(40))
